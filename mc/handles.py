"""E2 world of several record-file handles open at the same time (used by C02 and C04).

Three pre-written files share field NAMES but differ in everything a per-class or per-module
cache could wrongly share: field order, field types, delimiter, header / header-less.  Events
open, read (a small menu of row/column selections) and close handles in any interleaving; every
history runs in a forked child with pristine module state; every read is compared with Python
indexing of the table that was written to THAT file.  Row selections given as ndarray objects
live in a pool for the whole history and are checked for non-modification.
"""
import os

import numpy as np

from mc.oracle import table as T
from mc.util import fingerprint, in_child, module_state

FILES = {
    # name: (kind of handle, delimiter, descr, nrows)
    "bin": ("sfile", None, [("a", "<i4"), ("x", "<f8", (2,)), ("s", "S3"), ("b", "<i2")], 4),
    "colon": ("sfile", ":", [("b", "<f8"), ("s", "S5"), ("a", "<i8"), ("x", "<i2", (2,))], 3),
    "comma": ("recfile", ",", [("s", "S2"), ("x", "<f4"), ("b", "<u2"), ("a", "<i4")], 5),
    "pipe": ("sfile", "|", [("x", "<f8"), ("a", "<i2"), ("b", "<i4"), ("s", "S3")], 4),
}
SELECTIONS = [("all",), ("cols", ("a",)), ("cols", ("b", "a")), ("rows", (0, 2)), ("rowscols", (1,), ("s", "b")),
              ("lastrow",), ("neg1",)]


def make_table(name):
    kind, delim, descr, n = FILES[name]
    t = np.zeros(n, dtype=descr)
    for j, (fn, *_rest) in enumerate(descr):
        f = t[fn]
        if f.dtype.kind == "S":
            w = f.dtype.itemsize
            t[fn] = [(b"%c%d" % (97 + j, i)) [:w] for i in range(n)]
        else:
            base = (np.arange(f.size).reshape(f.shape) + 1) * (j + 2) + (len(name) * 10)
            t[fn] = base.astype(f.dtype) if f.dtype.kind in "iu" else (base / 4.0 + 0.25).astype(f.dtype)
    return t


def several_handles(ctx, name, files, depth, selections=SELECTIONS, max_open=3, nodedup_depth=2):
    from esutil import sfile, recfile
    import esutil.sfile as sm
    import esutil.recfile.Util as ru

    tables = {f: make_table(f) for f in files}

    def expected(f, sel):
        t = tables[f]
        if sel[0] == "all":
            return t
        if sel[0] == "cols":
            return t[sel[1][0]] if len(sel[1]) == 1 else T.extract_columns(t, [n for n in t.dtype.names if n in sel[1]])
        if sel[0] == "rows":
            return t[[r for r in sel[1] if r < t.size]]
        if sel[0] == "rowscols":
            rows = [r for r in sel[1] if r < t.size]
            return T.extract_columns(t, [n for n in t.dtype.names if n in sel[2]])[rows]
        return t[t.size - 1:t.size]     # lastrow / neg1: the last row

    def do_read(h, f, sel, pool):
        kind = FILES[f][0]
        if sel[0] == "all":
            return h.read()
        if sel[0] == "cols":
            cols = sel[1][0] if len(sel[1]) == 1 else list(sel[1])
            return h.read(columns=cols)
        if sel[0] == "rows":
            return h.read(rows=pool["rows02"][pool["rows02"] < tables[f].size])
        if sel[0] == "rowscols":
            return h.read(rows=list(sel[1]), columns=list(sel[2]))
        if sel[0] == "lastrow":
            return h.read(rows=[tables[f].size - 1])
        return h.read(rows=pool["neg1"])          # the SAME one-element int64 array [-1] for every file

    def child(hist, tmp):
        paths = {}
        for f in files:
            kind, delim, descr, n = FILES[f]
            p = os.path.join(tmp, "hw_%s.rec" % f)
            if os.path.exists(p):
                os.unlink(p)
            if kind == "sfile":
                sfile.write(p, tables[f], delim=delim)
            else:
                recfile.write(p, tables[f], delim=delim)
            paths[f] = p
        nfd0 = len(os.listdir("/proc/self/fd"))
        pool = dict(neg1=np.array([-1], dtype="i8"), rows02=np.array([0, 2], dtype="i8"))
        keep = {k: v.copy() for k, v in pool.items()}
        handles = {}
        msg = None
        try:
            for ev in hist:
                if ev[0] == "open":
                    f = ev[1]
                    kind, delim, descr, n = FILES[f]
                    if kind == "sfile":
                        handles[f] = sfile.SFile(paths[f])
                    else:
                        handles[f] = recfile.Recfile(paths[f], mode="r", dtype=np.dtype(descr), delim=delim)
                elif ev[0] == "close":
                    handles.pop(ev[1]).close()
                else:
                    _, f, sel = ev
                    got = do_read(handles[f], f, sel, pool)
                    exp = expected(f, sel)
                    if FILES[f][1] is not None and exp.dtype.names is None and exp.dtype.kind == "f":
                        same = got.shape == exp.shape and np.allclose(got, exp, rtol=1e-6, atol=0)
                        m = None if same else "values differ: %r vs %r" % (got.tolist(), exp.tolist())
                    elif exp.dtype.names is None:
                        m = T.same_plain(got, exp)
                    elif FILES[f][1] is not None:
                        m = None
                        if got.dtype.names != exp.dtype.names or got.shape != exp.shape:
                            m = "names/shape %r %r, expected %r %r" % (got.dtype.names, got.shape, exp.dtype.names, exp.shape)
                        else:
                            for nm in exp.dtype.names:
                                a, b = got[nm], exp[nm]
                                ok = np.allclose(a, b, rtol=1e-6, atol=0) if b.dtype.kind == "f" else np.array_equal(a, b)
                                if not ok or a.shape != b.shape:
                                    m = "field %r: read %r, written %r" % (nm, a.tolist(), b.tolist())
                                    break
                    else:
                        m = T.same_table(got, exp)
                    if m:
                        msg = "read %r of file %r (%s, delim %r) after %r: %s" % (sel, f, FILES[f][0], FILES[f][1], hist[:-1], m)
                        break
                    for k in pool:
                        if not np.array_equal(pool[k], keep[k]) or pool[k].dtype != keep[k].dtype:
                            msg = "read %r of file %r modified the caller's row array: %r, was %r" % (sel, f, pool[k].tolist(), keep[k].tolist())
                            break
                    if msg:
                        break
        except Exception as e:
            import traceback
            tb = traceback.extract_tb(e.__traceback__)[-1]
            msg = "event %r raised %s: %s [at %s:%d] after %r" % (hist[-1] if hist else None, type(e).__name__, str(e)[:200],
                                                               os.path.basename(tb.filename), tb.lineno, hist[:-1])
        hst = []
        for f in sorted(handles):
            h = handles[f]
            d = {k: v for k, v in h.__dict__.items() if k not in ("_robj", "robj", "_filename", "filename")}
            r = getattr(h, "_robj", None)
            if r is not None:
                d["_robj_py"] = {k: v for k, v in r.__dict__.items() if k not in ("robj", "filename")}
            hst.append((f, fingerprint(d)))
            try:
                h.close()
            except Exception:
                pass
        if msg is None and len(os.listdir("/proc/self/fd")) != nfd0:
            msg = "after %r and closing every handle %d file descriptor(s) are still open" % (hist, len(os.listdir("/proc/self/fd")) - nfd0)
        for p in paths.values():
            if os.path.exists(p):
                os.unlink(p)
        key = (tuple(hst), module_state(sm, ru))
        menu = []
        if len(handles) < max_open:
            menu += [("open", f) for f in files if f not in handles]
        for f in sorted(handles):
            menu += [("read", f, sel) for sel in selections]
            menu.append(("close", f))
        return msg, key, tuple(menu)

    def execute(hist, rec):
        st, out = in_child(lambda: child(hist, rec.tmp))
        if st != "ok":
            rec.fail(hist, "history could not be executed: %s" % (out,))
            return None
        msg, key, menu = out
        if msg:
            rec.fail(hist, msg)
            return None
        return key, menu

    return ctx.histories(name, [()], execute, depth=depth, nodedup_depth=nodedup_depth,
                         bounds=dict(files={f: dict(handle=FILES[f][0], delim=FILES[f][1], descr=str(FILES[f][2]), rows=FILES[f][3])
                                            for f in files},
                                     selections=[repr(s) for s in selections], max_open=max_open, depth=depth,
                                     isolation="every history in a forked child with pristine module state"))
