"""Headers carried from one self-describing file to the next (used by C01 for binary and C04 for text destinations).

The normal way to keep user keywords is to read a file's header and hand that dict to the next write.  Such a dict
contains the library's own reserved entries (_DTYPE, _SIZE, _DELIM, _VERSION, ...) describing the SOURCE file - another
dtype, row count, delimiter.  The file written must describe the table actually written, whatever the carried dict says.

Lattice: source file {binary, ':' text, ',' text} x way of obtaining the header {read(header=True), read_header,
get_header, column-subset read, the dict plus one more user key, hand-written lower/mixed-case reserved keys} x table
written {the source's rows, a column subset, an unrelated table} x writer x destination delimiter.
"""
import copy
import os

import numpy as np

SOURCES = {
    "bin": (None, [("a", ">i4"), ("s", "S2"), ("x", "<f8", (2,))], 3),
    "colon": (":", [("b", "<i2"), ("s", "S4")], 2),
    "comma": (",", [("a", ">i4"), ("s", "S2"), ("x", "<f8", (2,))], 3),
}
GETTERS = ["read", "read_header", "get_header", "subset", "plus-key", "lower-case", "mixed-case"]
DESTS = ["same", "subset", "other"]
WRITERS = ["sfile.write", "SFile.write", "io.write"]
USER = {"k": 1, "note": "it's"}


def fill(descr, n, salt):
    t = np.zeros(n, dtype=descr)
    for j, nm in enumerate(t.dtype.names):
        f = t[nm]
        if f.dtype.base.kind == "S":
            w = f.dtype.base.itemsize
            f[...] = np.array([(b"%c%d" % (97 + j + salt, i))[:w] for i in range(f.size)]).reshape(f.shape)
        else:
            base = (np.arange(f.size).reshape(f.shape) + 1) * (j + 2) + salt * 10
            f[...] = base if f.dtype.base.kind in "iu" else base / 4.0 + 0.25
    return t


def carried_headers(ctx, name, dest_delims):
    import esutil
    from esutil import sfile

    def get_header(getter, fn, src):
        if getter in ("read", "plus-key"):
            h = sfile.read(fn, header=True)[1]
            if getter == "plus-key":
                h["added"] = [1, 2]
            return h
        if getter == "read_header":
            return sfile.read_header(fn)
        if getter == "get_header":
            with sfile.SFile(fn) as sf:
                return sf.get_header()
        if getter == "subset":
            return sfile.read(fn, columns=["s", src.dtype.names[0]], header=True)[1]
        h = sfile.read(fn, header=True)[1]
        conv = (lambda k: k.lower()) if getter == "lower-case" else (lambda k: k[:2] + k[2:].lower())
        return {(conv(k) if k.startswith("_") else k): v for k, v in h.items()}

    def one(case, rec):
        srcname, getter, dest, writer, delim = case
        sdelim, sdescr, sn = SOURCES[srcname]
        src = fill(sdescr, sn, 1)
        f1 = os.path.join(rec.tmp, "carry_src.rec")
        f2 = os.path.join(rec.tmp, "carry_dst.rec")
        for f in (f1, f2):
            if os.path.exists(f):
                os.unlink(f)
        sfile.write(f1, src, delim=sdelim, header=dict(USER))
        try:
            hdr = get_header(getter, f1, src)
        except Exception as e:
            return rec.fail(case, "obtaining the header (%s) raised %s: %s" % (getter, type(e).__name__, e))
        if dest == "same":
            d = src.copy()
        elif dest == "subset":
            d = np.zeros(sn, dtype=[(n, src.dtype[n]) for n in ("s", src.dtype.names[0])])
            for n in d.dtype.names:
                d[n] = src[n]
        else:
            d = fill([("q", "<f4"), ("w", ">u2", (2,)), ("t", "S3")], 4, 3)
        keep_hdr = copy.deepcopy(hdr)
        try:
            if writer == "sfile.write":
                sfile.write(f2, d, delim=delim, header=hdr)
            elif writer == "SFile.write":
                with sfile.SFile(f2, "w", delim=delim) as sf:
                    sf.write(d, header=hdr)
            else:
                esutil.io.write(f2, d, delim=delim, header=hdr)
        except Exception as e:
            return rec.fail(case, "%s with the carried header raised %s: %s" % (writer, type(e).__name__, str(e)[:160]))
        if repr(hdr) != repr(keep_hdr):
            return rec.fail(case, "%s modified the caller's header dict: %r, was %r" % (writer, hdr, keep_hdr))
        try:
            out, h2 = sfile.read(f2, header=True)
        except Exception as e:
            return rec.fail(case, "reading the file written with a carried header raised %s: %s" % (type(e).__name__, str(e)[:160]))
        if out.dtype.names != d.dtype.names or out.shape != d.shape:
            return rec.fail(case, "read fields %r x %r rows, written %r x %r" % (out.dtype.names, out.shape, d.dtype.names, d.shape))
        for n in d.dtype.names:
            if out[n].shape != d[n].shape or not np.array_equal(out[n], d[n]):
                return rec.fail(case, "field %r: read %r, written %r" % (n, out[n].tolist(), d[n].tolist()))
            if delim is None and out.dtype[n] != d.dtype[n]:
                return rec.fail(case, "field %r: type %r, written %r" % (n, out.dtype[n], d.dtype[n]))
        if h2.get("_SIZE") != d.size:
            return rec.fail(case, "_SIZE=%r, %d rows written" % (h2.get("_SIZE"), d.size))
        if h2.get("_DELIM") != delim:
            return rec.fail(case, "_DELIM=%r, written with %r" % (h2.get("_DELIM"), delim))
        try:
            dts = [tuple(t) for t in h2["_DTYPE"]]
            if delim is None:
                okd = np.dtype(dts) == d.dtype
            else:
                okd = not any(c in str(t[1]) for t in dts for c in "<>=|") and \
                    [(t[0], np.dtype(t[1]).newbyteorder("=").str[1:]) + tuple(t[2:]) for t in dts] == \
                    [(t[0], t[1][1:]) + tuple(t[2:]) for t in d.dtype.descr]
        except Exception as e:
            return rec.fail(case, "_DTYPE %r unusable: %r" % (h2.get("_DTYPE"), e))
        if not okd:
            return rec.fail(case, "_DTYPE %r does not describe the table written (%r)" % (h2["_DTYPE"], d.dtype.descr))
        for k, v in USER.items():
            if k not in h2 or h2[k] != v:
                return rec.fail(case, "user key %r: %r, given %r" % (k, h2.get(k), v))
        if getter == "plus-key" and h2.get("added") != [1, 2]:
            return rec.fail(case, "user key 'added': %r" % (h2.get("added"),))
        rec.ok(case, outcome="carried:%s:%s" % (getter, dest), nontrivial=(dest != "same" or sdelim != delim))

    units = [(s, g, d, w, dl) for s in SOURCES for g in GETTERS for d in DESTS for w in WRITERS for dl in dest_delims]
    return ctx.lattice(name, units, one, bounds=dict(sources={k: dict(delim=v[0], descr=str(v[1]), rows=v[2]) for k, v in SOURCES.items()},
                                                       getters=GETTERS, written=DESTS, writers=WRITERS, dest_delims=[repr(x) for x in dest_delims]))
