"""small helpers shared by the checks"""
import hashlib

import numpy as np


import types as _types


def _fp(h, x, depth, seen):
    if depth > 12:
        h.update(b"<deep>")
        return
    if isinstance(x, np.ndarray):
        h.update(b"A")
        h.update(str(x.dtype.descr if x.dtype.names else x.dtype.str).encode())
        h.update(str(x.shape).encode())
        if x.dtype.hasobject:
            for v in x.ravel().tolist():
                _fp(h, v, depth + 1, seen)
        else:
            h.update(np.ascontiguousarray(x).tobytes())
        return
    if isinstance(x, np.generic):
        h.update(b"G" + str(x.dtype.str).encode() + x.tobytes())
        return
    if isinstance(x, (bool, int, str, bytes, type(None))):
        h.update(repr((type(x).__name__, x)).encode())
        return
    if isinstance(x, float):
        h.update(b"F" + np.float64(x).tobytes())
        return
    if isinstance(x, complex):
        h.update(b"C" + np.complex128(x).tobytes())
        return
    if id(x) in seen:
        h.update(b"<cycle>")
        return
    seen = seen | {id(x)}
    if isinstance(x, (list, tuple)):
        h.update(b"L" if isinstance(x, list) else b"T")
        h.update(str(len(x)).encode())
        for v in x:
            _fp(h, v, depth + 1, seen)
        return
    if isinstance(x, dict):
        h.update(b"D")
        items = []
        for k, v in x.items():
            hh = hashlib.sha1()
            _fp(hh, k, depth + 1, seen)
            _fp(hh, v, depth + 1, seen)
            items.append(hh.digest())
        for d in sorted(items):
            h.update(d)
        return
    if isinstance(x, (set, frozenset)):
        h.update(b"S")
        items = []
        for v in x:
            hh = hashlib.sha1()
            _fp(hh, v, depth + 1, seen)
            items.append(hh.digest())
        for d in sorted(items):
            h.update(d)
        return
    if isinstance(x, np.dtype):
        h.update(b"dt" + str(x.descr if x.names else x.str).encode())
        return
    if isinstance(x, _types.ModuleType):
        # a module stored in a dict (a namespace for eval): its name, never its contents
        h.update(b"<module " + getattr(x, "__name__", "?").encode() + b">")
        return
    d = getattr(x, "__dict__", None)
    if d is not None and not isinstance(x, type) and not callable(x):
        h.update(b"O" + type(x).__name__.encode())
        _fp(h, d, depth + 1, seen)
        return
    # opaque objects (C handles, functions, modules): identity-free marker
    h.update(b"<" + type(x).__name__.encode() + b">")


def fingerprint(*objs):
    """deep, order-independent (for dict/set) hash of python/numpy state"""
    h = hashlib.sha1()
    for o in objs:
        _fp(h, o, 0, frozenset())
    return h.hexdigest()


def same_bits(a, b):
    """arrays equal in dtype (incl. byte order, names, shapes), shape and bytes"""
    a = np.asarray(a)
    b = np.asarray(b)
    if a.dtype.names or b.dtype.names:
        if a.dtype.descr != b.dtype.descr:
            return False
    elif a.dtype.str != b.dtype.str:
        return False
    return a.shape == b.shape and np.ascontiguousarray(a).tobytes() == np.ascontiguousarray(b).tobytes()


def lit(a):
    """plain python literal of an array's content (for messages)"""
    try:
        return np.asarray(a).tolist()
    except Exception:
        return repr(a)


# --------------------------------------------------------------------------
# process-wide state: pristine children and module-state fingerprints


def in_child(fn, timeout=300):
    """run fn() in a forked child of the calling process and return its (picklable) result.

    Used where process-wide state (module-level caches, shared default objects,
    C statics) is part of the explored state: the caller never executes esutil
    itself, so every child starts from the same pristine module state and a
    history is replayable in isolation.  A child that dies or raises is returned
    as ("died", text)."""
    import os
    import pickle
    import signal
    import sys
    import traceback
    import struct
    r, w = os.pipe()
    sys.stdout.flush()
    sys.stderr.flush()
    pid = os.fork()
    if pid == 0:
        code = 0
        try:
            os.close(r)
            try:
                os.setpgid(0, 0)        # own process group: whatever the history leaves running is killed with it
            except OSError:
                pass
            signal.alarm(int(timeout))
            try:
                out = ("ok", fn())
            except BaseException:
                out = ("died", "raised: " + traceback.format_exc()[-1200:])
            payload = pickle.dumps(out, protocol=4)
            with os.fdopen(w, "wb") as f:
                f.write(struct.pack("<Q", len(payload)))
                f.write(payload)
        except BaseException:
            code = 3
        finally:
            os._exit(code)
    os.close(w)

    def read_exact(f, n):
        # length-prefixed: processes the history left running (e.g. pool workers kept alive) may hold the write end
        # of the pipe open for ever, so end-of-file is not a usable end marker
        buf = b""
        while len(buf) < n:
            chunk = f.read(n - len(buf))
            if not chunk:
                break
            buf += chunk
        return buf
    data = b""
    with os.fdopen(r, "rb") as f:
        head = read_exact(f, 8)
        if len(head) == 8:
            data = read_exact(f, struct.unpack("<Q", head)[0])
    _, status = os.waitpid(pid, 0)
    try:
        os.killpg(pid, signal.SIGKILL)      # left-over descendants of the child
    except OSError:
        pass
    if os.WIFSIGNALED(status):
        return ("died", "child killed by signal %d" % os.WTERMSIG(status))
    if not data:
        return ("died", "child exited with status %d without a result" % os.WEXITSTATUS(status))
    try:
        return pickle.loads(data)
    except Exception as e:
        return ("died", "unreadable child result: %s" % e)


def module_state(*modules):
    """fingerprint of the mutable module-level data (dict/list/set/ndarray globals, and the
    __dict__ of plain instances) of the given modules: module caches and shared defaults
    that an operation may leave behind are part of the canonical state key"""
    import types
    items = []
    for m in modules:
        for k, v in sorted(vars(m).items()):
            if k.startswith("__"):
                continue
            if isinstance(v, (dict, list, set, np.ndarray)):
                items.append((m.__name__, k, fingerprint(v)))
            elif isinstance(v, type) and getattr(v, "__module__", None) == m.__name__:
                # mutable class attributes (a cache shared by all instances of a class)
                for ck, cv in sorted(vars(v).items()):
                    if not ck.startswith("__") and isinstance(cv, (dict, list, set, np.ndarray)):
                        items.append((m.__name__, k + "." + ck, fingerprint(cv)))
            elif not isinstance(v, (types.ModuleType, types.FunctionType, type, types.BuiltinFunctionType)) \
                    and hasattr(v, "__dict__") and not callable(v):
                items.append((m.__name__, k, fingerprint(v)))
    return fingerprint(items)


class _ChildRec(object):
    """stand-in for core.Rec inside a pristine child: remembers what was reported"""

    def __init__(self, tmp):
        self.tmp = tmp
        self.fails = []
        self.counts = []
        self.oks = []

    def fail(self, case, message):
        self.fails.append((case, message))

    def count(self, key, n=1):
        self.counts.append((key, n))

    def ok(self, *a, **kw):
        self.oks.append((a, kw))


def pristine(execute, modules=None):
    """wrap a histories `execute(hist, rec)` so that every history is replayed in a forked child of a worker
    that never runs the library itself: module-level state (caches keyed by file name, shared defaults) is
    pristine at the start of every history, so it is part of the explored state instead of leaking from one
    history into the next, and a recorded history fails (or passes) the same way when replayed alone.  ``modules()``
    (called in the child) names the modules whose mutable module-level data joins the canonical state key."""
    def wrapped(hist, rec):
        def run():
            cr = _ChildRec(rec.tmp)
            out = execute(hist, cr)
            if modules is not None and isinstance(out, tuple) and len(out) == 2:
                # what the history left behind at module level (a cache filled by a read) is part of the state: two
                # histories that differ only in that must not be merged
                out = ((out[0], module_state(*modules())), out[1])
            return cr.fails, cr.counts, out
        st, res = in_child(run)
        if st != "ok":
            rec.fail(hist, "history could not be executed: %s" % (res,))
            return None
        fails, counts, out = res
        for case, message in fails:
            rec.fail(case, message)
        for key, n in counts:
            rec.count(key, n)
        return out
    return wrapped


class FdLeak(Exception):
    pass


def no_fd_leak(fn):
    """decorator for function-style library calls (open, work, close inside one call): the number of open file
    descriptors of the process must be the same afterwards; a call that leaves its file open makes a long job fail
    with "too many open files" hundreds of calls later"""
    import functools
    import os

    @functools.wraps(fn)
    def wrapped(*a, **k):
        n = len(os.listdir("/proc/self/fd"))
        r = fn(*a, **k)
        m = len(os.listdir("/proc/self/fd"))
        if m != n:
            raise FdLeak("the call left %d file descriptor(s) open" % (m - n))
        return r
    return wrapped
