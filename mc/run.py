"""entry point behind /verif/check: ``run.py Cxx [--tier quick|thorough] [--replay file]``"""
import argparse
import collections
import importlib
import json
import os
import re
import sys
import time
import warnings

HERE = os.path.dirname(os.path.abspath(__file__))
VERIF = os.path.dirname(HERE)
sys.path.insert(0, VERIF)

from mc import build, core, findings  # noqa: E402


def _abbrev(x, keep=40):
    """a sample as written to the evidence file: a sequence of more than ``keep`` elements (the long-array parts
    explore inputs of 10^4..10^5 elements) keeps its first ``keep - 8`` and last 8 elements around a marker that
    states how many were left out, so the evidence file stays a few hundred kB; the replay files keep full cases"""
    if isinstance(x, list):
        if len(x) > keep:
            head, tail = x[:keep - 8], x[-8:]
            return ([_abbrev(v, keep) for v in head]
                    + ["... %d of %d elements elided ..." % (len(x) - len(head) - len(tail), len(x))]
                    + [_abbrev(v, keep) for v in tail])
        return [_abbrev(v, keep) for v in x]
    if isinstance(x, dict):
        return {k: _abbrev(v, keep) for k, v in x.items()}
    if isinstance(x, str) and len(x) > 2000:
        return x[:1500] + "... %d of %d characters elided ..." % (len(x) - 1700, len(x)) + x[-200:]
    return x


def write_evidence(ctx, mod, nviol_new, nknown, stage=None):
    parts = ctx.parts
    cov = {}
    states = sum(p.stats.get("states", 0) for p in parts.values())
    trans = sum(p.stats.get("transitions", 0) for p in parts.values())
    evals = sum(p.stats.get("evaluations", 0) for p in parts.values())
    nontriv = sum(p.stats.get("distinct_nontrivial", 0) for p in parts.values())
    samples = []
    for p in parts.values():
        for k in ("first", "last"):
            c = p.stats.get(k)
            if c is not None:
                samples.append({"part": p.name, "which": k, "case": _abbrev(core._jsonable(c))})
        for v in getattr(p, "violations", [])[:2]:
            samples.append({"part": p.name, "which": "violating", "case": _abbrev(core._jsonable(v.case)),
                            "message": v.message[:400]})
    cov["states"] = states
    cov["transitions"] = trans
    cov["traces_validated_against_impl"] = trans
    cov["samples"] = samples
    cov["evaluations"] = evals
    cov["distinct_nontrivial"] = nontriv
    cov["rule"] = getattr(mod, "RULE", "")
    cov["exhaustive"] = all(p.stats.get("exhaustive", True) for p in parts.values()) and bool(parts)
    cov["explanation"] = (
        "The implementation itself is explored (no separate model): every transition "
        "is a real call into esutil imported from an overlay built from the current tree; "
        "traces_validated_against_impl therefore equals transitions."
    )
    cov["tree"] = build.repo_root()
    cov["parts"] = {}
    for p in parts.values():
        st = dict(p.stats)
        st.pop("first", None)
        st.pop("last", None)
        cov["parts"][p.name] = _abbrev(core._jsonable(st), keep=200)
    cov["known_findings_reported"] = nknown
    cov["notes"] = ctx.notes
    ev = {
        "property_id": ctx.pid,
        "tier": ctx.tier,
        "seed": ctx.seed,
        "level": "model_checking",
        "coverage": cov,
        "assumptions": list(getattr(mod, "ASSUMPTIONS", [])) + ctx.assumptions,
        "wall_s": round(time.time() - ctx.t0, 2),
        "violations": nviol_new,
    }
    d = os.environ.get("VERIF_EVIDENCE_DIR") or os.path.join(VERIF, "evidence")
    if not os.environ.get("VERIF_EVIDENCE_DIR") and os.path.realpath(build.repo_root()) != "/repo":
        # a run against a scratch tree (seeded change, pre-fix archive) must not replace the evidence of /repo
        d = "/var/tmp/esutil-verif-scratch-evidence"
    os.makedirs(d, exist_ok=True)
    STAGES = {"asan": "AddressSanitizer build of the five extensions",
              "pyopt": "optimised interpreter (python -O: assert statements and `if __debug__` blocks of the library are stripped)"}
    if stage in STAGES:
        # side file, embedded by the main thorough run that follows
        with open(os.path.join(d, ".%s.%s.json" % (ctx.pid, stage)), "w") as f:
            json.dump({"tier_bounds": "quick", "environment": STAGES[stage],
                       "states": states, "transitions": trans, "violations": nviol_new,
                       "wall_s": ev["wall_s"], "tree": build.repo_root(), "time": time.time()}, f)
        return
    if ctx.tier == "thorough":
        for st in STAGES:
            side = os.path.join(d, ".%s.%s.json" % (ctx.pid, st))
            if not os.path.exists(side):
                continue
            try:
                with open(side) as f:
                    sd = json.load(f)
                if time.time() - sd.get("time", 0) < 6 * 3600 and sd.get("tree") == build.repo_root():
                    sd.pop("time", None)
                    cov[st + "_stage"] = sd
            except Exception:
                pass
    tmp = os.path.join(d, ".%s.json.tmp" % ctx.pid)
    with open(tmp, "w") as f:
        json.dump(ev, f, indent=1, sort_keys=True)
        f.write("\n")
    os.rename(tmp, os.path.join(d, "%s.json" % ctx.pid))


def main():
    ap = argparse.ArgumentParser()
    ap.add_argument("pid")
    ap.add_argument("--tier", default=os.environ.get("VERIF_TIER", "quick"))
    ap.add_argument("--replay", default=None)
    ap.add_argument("--stage", default=None, help="'asan' / 'pyopt': extra stages of the thorough tier (side evidence file)")
    a = ap.parse_args()
    pid = a.pid.upper()
    tier = a.tier if a.tier in ("quick", "thorough") else "quick"
    try:
        seed = int(os.environ.get("VERIF_SEED", "0"))
    except ValueError:
        seed = 0

    warnings.simplefilter("ignore")
    os.environ.setdefault("PYTHONWARNINGS", "ignore")
    build.activate()
    mod = importlib.import_module("mc.checks.%s" % pid.lower())

    replay = None
    if a.replay:
        with open(a.replay) as f:
            replay = json.load(f)
        # a recorded case is replayed under the tier and seed it was found with (they select the alphabets)
        if replay.get("tier") in ("quick", "thorough"):
            tier = replay["tier"]
        if isinstance(replay.get("seed"), int):
            seed = replay["seed"]
    ctx = core.Ctx(pid, tier, seed, replay=replay)
    core.KNOWN[:] = findings.predicates(pid, mod)
    try:
        if replay is not None:
            mod.main(ctx)  # registers parts without running them
            part = ctx.parts.get(replay["part"])
            if part is None:
                print("unknown part %r in replay file" % replay["part"])
                return 2
            case = core.text_to_case(replay["case"])
            rec = core.Rec(part.name)
            rec.tmp = ctx.tmpdir
            try:
                part.one(case, rec)
            except Exception:
                import traceback
                rec.fail(case, "raised: " + traceback.format_exc()[-1500:])
            if rec.nviol:
                for v in rec.violations:
                    print("REPLAY-FAIL part=%s case=%s\n  %s" % (v.part, core.case_to_text(v.case)[:600],
                                                                 v.message[:1500]))
                print("VIOLATION property=%s replay=%s" % (pid, a.replay))
                return 1
            pre = replay.get("prefix_units")
            units = getattr(part, "units", None)
            if pre and units is not None and replay.get("tier") == tier and replay.get("seed") == seed:
                # the case alone holds: re-execute, in one fresh process, the cases its worker had executed before it
                from mc.util import in_child
                units = list(units)

                def rerun():
                    r2 = core.Rec(part.name)
                    r2.tmp = ctx.tmpdir
                    want = replay["case"]
                    for i in pre:
                        if i >= len(units):
                            return ("mismatch", "unit index %d out of range" % i)
                        cases = list(part.expand(units[i])) if part.expand else [units[i]]
                        for c in cases:
                            try:
                                part.one(c, r2)
                            except Exception:
                                import traceback
                                r2.fail(c, "raised: " + traceback.format_exc()[-800:])
                    hits = [v for v in r2.violations if core.case_to_text(v.case) == want]
                    if hits:
                        return ("hit", hits[0].message)
                    if r2.violations:
                        v0 = r2.violations[0]
                        return ("otherhit", "%d other case(s) of the recorded prefix fail, e.g. %s: %s"
                                % (r2.nviol, core.case_to_text(v0.case)[:300], v0.message[:600]))
                    return ("nohit", 0)
                st, out = in_child(rerun, timeout=3600)
                if os.environ.get("VERIF_DEBUG_REPLAY"):
                    print("prefix replay:", st, out)
                if st == "ok" and out[0] in ("hit", "otherhit"):
                    print("REPLAY-FAIL part=%s case=%s\n  (fails after the %d earlier cases of its worker process: "
                          "process-wide state)\n  %s" % (part.name, replay["case"][:600], len(pre) - 1, out[1][:1500]))
                    print("VIOLATION property=%s replay=%s" % (pid, a.replay))
                    return 1
            print("REPLAY-OK property=%s (the recorded case no longer violates)" % pid)
            return 0

        mod.main(ctx)
        allv = []
        for p in ctx.parts.values():
            allv.extend(getattr(p, "violations", []))
        total_viol = sum(p.stats.get("violations", 0) for p in ctx.parts.values())
        if os.environ.get("VERIF_DUMP_VIOLATIONS"):
            # debugging aid: every recorded violation (up to the per-class caps), one JSON object per line
            with open(os.environ["VERIF_DUMP_VIOLATIONS"], "w") as f:
                for v in allv:
                    f.write(json.dumps({"part": v.part, "case": core.case_to_text(v.case), "message": v.message}) + "\n")
        new = allv
        known = collections.Counter()
        for p in ctx.parts.values():
            known.update(getattr(p, "known", {}))
        for kf, n in sorted(known.items()):
            print("KNOWN-FINDING: property=%s %s [%s; %d case(s) on this run]" % (pid, kf[1], kf[0], n))
        paths = []
        seen = set()
        new = sorted(new, key=lambda v: (len(core.case_to_text(v.case)), core.case_to_text(v.case)))
        # one replay file per distinct failure class (message with the numbers
        # blanked), simplest case first; at most 12 files per run
        classes = collections.OrderedDict()
        for v in new:
            classes.setdefault((v.part, core.message_class(v.message)), []).append(v)
        chosen = [vs[0] for vs in classes.values()]
        counts = collections.Counter()
        for p in ctx.parts.values():
            for k, n in getattr(p, "vclasses", {}).items():
                counts[(p.name, k)] += n
        for k, vs in classes.items():
            sys.stderr.write("  class x%d part=%s: %s\n" % (counts.get(k, len(vs)), k[0], k[1]))
        for v in chosen[:12]:
            if v.sig() in seen:
                continue
            seen.add(v.sig())
            d = os.path.join(VERIF, "replays", pid)
            os.makedirs(d, exist_ok=True)
            path = os.path.join(d, v.sig() + ".json")
            with open(path, "w") as f:
                json.dump({"property": pid, "part": v.part, "case": core.case_to_text(v.case),
                           "message": v.message, "tier": tier, "seed": seed,
                           "tree": build.repo_root(),
                           # units the worker process had executed before (and including) this case; used by
                           # --replay when the case alone does not fail (process-wide state left by earlier cases)
                           "prefix_units": getattr(v, "prefix", None)}, f, indent=1)
                f.write("\n")
            paths.append((v, path))
        nnew = len(new)
        # violations beyond the per-worker cap cannot be classified: count them as new
        # unless every recorded one was a known finding
        uncls = total_viol - len(allv)
        if uncls > 0 and nnew == 0 and not known:
            nnew = uncls
        write_evidence(ctx, mod, nnew if nnew else 0, len(known), stage=a.stage)
        if paths:
            shown = 0
            for v, path in paths:
                if shown < 12:
                    sys.stderr.write("  violation part=%s case=%s\n    %s\n" % (
                        v.part, core.case_to_text(v.case)[:400], v.message[:600].replace("\n", "\n    ")))
                shown += 1
                print("VIOLATION property=%s replay=%s" % (pid, os.path.relpath(path, VERIF)))
            print("%s: %d violating case(s) recorded (%d counted in total)" % (pid, len(paths), total_viol))
            return 1
        if not ctx.parts:
            print("%s: nothing was explored" % pid)
            return 2
        st = sum(p.stats.get("states", 0) for p in ctx.parts.values())
        tr = sum(p.stats.get("transitions", 0) for p in ctx.parts.values())
        print("%s OK tier=%s%s seed=%d states=%d transitions=%d parts=%d wall=%.1fs" % (
            pid, tier, (" (%s stage)" % a.stage) if a.stage else "", seed, st, tr, len(ctx.parts), time.time() - ctx.t0))
        return 0
    finally:
        ctx.cleanup()


def _proc_table():
    """{pid: (ppid, pgid, starttime)} from /proc"""
    tab = {}
    for d in os.listdir("/proc"):
        if not d.isdigit():
            continue
        try:
            with open("/proc/%s/stat" % d) as f:
                st = f.read()
            rest = st[st.rindex(")") + 2:].split()
            tab[int(d)] = (int(rest[1]), int(rest[2]), int(rest[19]))
        except (OSError, ValueError, IndexError):
            pass
    return tab


def _kill_leftovers_of_inherited_group():
    """the run was started as the leader of a group it did not create (first command of a shell pipeline, or a caller
    that gave the check a session of its own): the group may hold processes of the caller, e.g. the `tail` the output
    is piped to, so only what this run started is killed: its descendants, and orphans of the group (re-parented
    to init or a sub-reaper, i.e. their parent is not in the group any more) that were started after this process"""
    import signal
    me = os.getpid()
    tab = _proc_table()
    if me not in tab:
        return
    mine = {me}
    grew = True
    while grew:
        grew = False
        for pid, (ppid, _, _) in tab.items():
            if ppid in mine and pid not in mine:
                mine.add(pid)
                grew = True
    t0 = tab[me][2]
    myparent = tab[me][0]
    for pid, (ppid, pgid, start) in tab.items():
        if pid in mine or pgid != me or start < t0:
            continue
        # a sibling started by the caller (same parent as this process) is the caller's; a member of the group whose
        # parent is neither the caller nor in the group has lost its parent: an orphan of this run
        if ppid != myparent and (ppid not in tab or tab[ppid][1] != me):
            mine.add(pid)
    mine.discard(me)
    for pid in mine:
        try:
            os.kill(pid, signal.SIGTERM)
        except OSError:
            pass


def _main_in_own_group():
    """run main() as the leader of its own process group and, when it is done, kill whatever the run left behind in
    that group (a library change may keep worker processes alive beyond the call that started them: they would hold
    the check's output pipe open and the check would never end for its caller)"""
    import signal
    try:
        inherited_leader = os.getpgid(0) == os.getpid()
    except OSError:
        inherited_leader = False
    if not inherited_leader:
        try:
            os.setpgid(0, 0)
        except OSError:
            pass
    code = 1
    try:
        code = main()
    finally:
        sys.stdout.flush()
        sys.stderr.flush()
        try:
            if inherited_leader:
                _kill_leftovers_of_inherited_group()
            elif os.getpgid(0) == os.getpid():
                signal.signal(signal.SIGTERM, signal.SIG_IGN)
                os.killpg(os.getpid(), signal.SIGTERM)
                time.sleep(0.05)
        except OSError:
            pass
    return code


if __name__ == "__main__":
    sys.exit(_main_in_own_group())
