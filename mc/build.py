"""Build-from-tree: make the *current* working tree of the repository importable.

Checks must never import the in-place extension modules of /repo (they may be
stale with respect to edited .c/.cc/.cpp files).  ``overlay()`` returns a
directory that contains an ``esutil`` package made of copies of the tree's
python files plus extension modules freshly compiled from the tree's C/C++
sources.  Compiled extensions are cached (outside /repo and /verif) under a key
derived from the hash of every C/C++ input, so a python-only edit costs a file
copy and a C edit costs one rebuild (~12 s with -j16).

Environment:
  ESUTIL_VERIF_REPO   tree to test (default /repo)
  ESUTIL_VERIF_CACHE  cache directory (default /var/tmp/esutil-verif-cache)
"""
import fcntl
import hashlib
import os
import shutil
import subprocess
import sys
import time

PY = "/venv/bin/python"

EXT_SO = {
    "esutil/recfile": "_records",
    "esutil/cosmology": "_cosmolib",
    "esutil/htm": "_htmc",
    "esutil/stat": "_chist",
    "esutil/integrate": "_cgauleg",
}
C_SUFFIXES = (".c", ".cc", ".cpp", ".h", ".hpp", ".hh", ".i")


def repo_root():
    return os.path.abspath(os.environ.get("ESUTIL_VERIF_REPO", "/repo"))


def cache_root():
    d = os.environ.get("ESUTIL_VERIF_CACHE", "/var/tmp/esutil-verif-cache")
    os.makedirs(d, exist_ok=True)
    return d


def _walk(root, pred):
    out = []
    for dp, dns, fns in os.walk(root):
        dns[:] = sorted(
            d for d in dns
            if d not in (".git", "__pycache__", "build", "tmp", "dist")
            and not d.endswith(".egg-info")
        )
        for fn in sorted(fns):
            p = os.path.join(dp, fn)
            if pred(p):
                out.append(p)
    return out


def _hash_files(root, files, extra=""):
    h = hashlib.sha1()
    h.update(extra.encode())
    for p in files:
        h.update(os.path.relpath(p, root).encode())
        h.update(b"\0")
        with open(p, "rb") as f:
            h.update(f.read())
        h.update(b"\0")
    return h.hexdigest()[:16]


def c_key(root):
    files = _walk(os.path.join(root, "esutil"), lambda p: p.endswith(C_SUFFIXES))
    files += [os.path.join(root, "setup.py")]
    import numpy

    extra = "py%s-np%s-%s" % (
        sys.version.split()[0], numpy.__version__,
        "asan2" if os.environ.get("ESUTIL_VERIF_SANITIZE") else "",
    )
    return _hash_files(root, files, extra)


def _build_ext(root, dest):
    """compile the five extensions from a scratch copy of root into dest"""
    scratch = os.path.join(cache_root(), "scratch-%d" % os.getpid())
    shutil.rmtree(scratch, ignore_errors=True)

    def ignore(d, names):
        return [
            n for n in names
            if n in (".git", "__pycache__", "build", "tmp", "dist", "tests")
            or n.endswith((".so", ".pyc", ".egg-info"))
        ]

    shutil.copytree(root, scratch, ignore=ignore)
    env = dict(os.environ)
    env.pop("PYTHONPATH", None)
    if os.environ.get("ESUTIL_VERIF_SANITIZE"):
        env["CFLAGS"] = "-fsanitize=address -fno-omit-frame-pointer -g -O1"
        env["CXXFLAGS"] = "-fsanitize=address -fno-omit-frame-pointer -g -O1"
        env["LDFLAGS"] = "-fsanitize=address"
    t0 = time.time()
    p = subprocess.run(
        [PY, "setup.py", "build_ext", "--inplace", "-j", "16"],
        cwd=scratch, env=env, stdout=subprocess.PIPE, stderr=subprocess.STDOUT,
    )
    if p.returncode != 0:
        sys.stderr.write(p.stdout.decode(errors="replace")[-6000:])
        shutil.rmtree(scratch, ignore_errors=True)
        raise SystemExit("BUILD FAILED: extensions of %s do not compile" % root)
    tmp = dest + ".tmp-%d" % os.getpid()
    shutil.rmtree(tmp, ignore_errors=True)
    os.makedirs(tmp)
    n = 0
    for sub, mod in EXT_SO.items():
        d = os.path.join(scratch, sub)
        for fn in os.listdir(d):
            if fn.startswith(mod) and fn.endswith(".so"):
                os.makedirs(os.path.join(tmp, sub), exist_ok=True)
                shutil.copy2(os.path.join(d, fn), os.path.join(tmp, sub, fn))
                n += 1
    shutil.rmtree(scratch, ignore_errors=True)
    if n != len(EXT_SO):
        shutil.rmtree(tmp, ignore_errors=True)
        raise SystemExit("BUILD FAILED: expected %d extension modules, got %d" % (len(EXT_SO), n))
    os.rename(tmp, dest)
    sys.stderr.write("[build] compiled extensions of %s in %.1fs\n" % (root, time.time() - t0))


def _prune(prefix, keep):
    root = cache_root()
    ds = [os.path.join(root, d) for d in os.listdir(root) if d.startswith(prefix) and ".tmp-" not in d]
    ds.sort(key=lambda d: os.path.getmtime(d), reverse=True)
    for d in ds[keep:]:
        shutil.rmtree(d, ignore_errors=True)


def overlay():
    """return a directory to put first on sys.path; it holds the current tree"""
    root = repo_root()
    if not os.path.isdir(os.path.join(root, "esutil")):
        raise SystemExit("no esutil package under %s" % root)
    croot = cache_root()
    with open(os.path.join(croot, "lock"), "w") as lk:
        fcntl.flock(lk, fcntl.LOCK_EX)
        ck = c_key(root)
        extdir = os.path.join(croot, "ext-" + ck)
        if not os.path.isdir(extdir):
            _build_ext(root, extdir)
        else:
            os.utime(extdir)
        pyfiles = _walk(
            os.path.join(root, "esutil"),
            lambda p: p.endswith(".py") and "/tests/" not in p,
        )
        tk = _hash_files(root, pyfiles, ck)
        tree = os.path.join(croot, "tree-" + tk)
        if not os.path.isdir(tree):
            tmp = tree + ".tmp-%d" % os.getpid()
            shutil.rmtree(tmp, ignore_errors=True)
            for p in pyfiles:
                rel = os.path.relpath(p, root)
                os.makedirs(os.path.dirname(os.path.join(tmp, rel)), exist_ok=True)
                shutil.copy2(p, os.path.join(tmp, rel))
            for dp, dns, fns in os.walk(extdir):
                for fn in fns:
                    rel = os.path.relpath(os.path.join(dp, fn), extdir)
                    os.makedirs(os.path.dirname(os.path.join(tmp, rel)), exist_ok=True)
                    shutil.copy2(os.path.join(dp, fn), os.path.join(tmp, rel))
            os.rename(tmp, tree)
        else:
            os.utime(tree)
        _prune("tree-", 12)
        _prune("ext-", 12)
    return tree


def activate():
    """put the overlay first on sys.path, import esutil from it, verify"""
    tree = overlay()
    sys.path.insert(0, tree)
    for m in [m for m in sys.modules if m == "esutil" or m.startswith("esutil.")]:
        del sys.modules[m]
    import esutil

    here = os.path.realpath(os.path.dirname(esutil.__file__))
    if not here.startswith(os.path.realpath(tree)):
        raise SystemExit("esutil imported from %s, not from overlay %s" % (here, tree))
    import esutil.recfile._records as r  # noqa: F401

    if not os.path.realpath(r.__file__).startswith(os.path.realpath(tree)):
        raise SystemExit("extension imported from outside the overlay")
    return tree


if __name__ == "__main__":
    print(overlay())
