"""E2 world: ONE SFile object used for several files, with observers in between (used by C01 and C03).

Every other world builds a fresh handle per file.  Here a single ``sfile.SFile()`` object is pointed to two paths
(file 0 holds dtype A, file 1 dtype B) through its public ``open()`` / ``close()`` methods in any order and mode,
written to, read from, printed (repr / str), asked for its header and row count, and the caller edits what it was
handed (the header dict from ``get_header()`` - documented as a copy - and the array and header from ``read``).
State kept on the object by one file (header dict, dtype, row count, delimiter) must never reach the next file, and
observing the object must not change what it returns afterwards.

Oracle: a plain per-file model (rows written so far, delimiter, user header given at creation); every read is
compared with it, and after the last event the object is closed and every file read back through a fresh
``sfile.read``.  Every history runs in a forked child with pristine module state.
"""
import hashlib
import os

import numpy as np

from mc.oracle import table as T
from mc.util import fingerprint, in_child, module_state

DTS = {"A": [("a", "<i4"), ("s", "S2")], "B": [("x", ">f8"), ("a", "<i2", (2,))]}
FDK = ("A", "B")
HDRS = [None, {"k": 1, "note": "END"}, {"other": [1, 2]}]


def chunk(dk, start, n):
    t = np.zeros(n, dtype=DTS[dk])
    r = np.arange(start, start + n)
    if dk == "A":
        t["a"] = r * 7 + 1
        t["s"] = [b"%02d" % (i % 100) for i in r]
    else:
        t["x"] = r / 4.0 - 1.0
        t["a"] = np.stack([r, -r], axis=1)
    return t


def native(descr):
    out = []
    for d in descr:
        t = d[1]
        if t[0] in "<>=":
            t = ("<" if np.little_endian else ">") + t[1:]
        out.append((d[0], t) + tuple(d[2:]))
    return out


def reused_object_world(ctx, name, depth, nodedup_depth=2, nmax=4):
    from esutil import sfile
    import esutil.sfile as sm
    import esutil.recfile.Util as ru

    def expect(dk, m):
        exp = chunk(dk, 0, m["n"])
        if m["delim"] is not None:
            exp = exp.astype(native(DTS[dk]))
        return exp

    def check_read(data, hdr, dk, m):
        if hdr.get("_SIZE") != m["n"]:
            return "_SIZE=%r but %d rows were written" % (hdr.get("_SIZE"), m["n"])
        msg = T.same_table(data, expect(dk, m))
        if msg:
            return "content is not the concatenation of the writes to this file: %s" % msg
        user = {k: v for k, v in hdr.items() if not k.startswith("_")}
        if not T.teq(user, m["hdr"] or {}):
            return "user header %r, given at creation %r" % (user, m["hdr"])
        if (hdr.get("_DELIM") or None) != m["delim"]:
            return "_DELIM %r, file created with %r" % (hdr.get("_DELIM"), m["delim"])
        try:
            if np.dtype([tuple(t) for t in hdr["_DTYPE"]]) != expect(dk, m).dtype:
                return "_DTYPE %r does not rebuild %r" % (hdr["_DTYPE"], expect(dk, m).dtype.descr)
        except Exception as e:
            return "_DTYPE unusable: %r (%r)" % (hdr.get("_DTYPE"), e)
        return None

    def child(hist, tmp):
        fns = [os.path.join(tmp, "sfreuse_%d.rec" % f) for f in (0, 1)]
        for fn in fns:
            if os.path.exists(fn):
                os.unlink(fn)
        ms = [dict(exists=False, delim=None, hdr=None, n=0, empty=False) for _ in (0, 1)]
        # the files are named RELATIVE to the current directory, and the process may change directory while a file is
        # open on the object (event "chdir"): an open handle must keep working on the file it was opened on
        os.makedirs(os.path.join(tmp, "elsewhere"), exist_ok=True)
        os.chdir(tmp)
        where = [0]

        def rel(f):
            return ("" if where[0] == 0 else "../") + os.path.basename(fns[f])
        nfd0 = len(os.listdir("/proc/self/fd"))
        sf = sfile.SFile()
        cur = None          # dict(f=, mode=, first=) while a file is open on the object
        msg = None
        try:
            for op in hist:
                k = op[0]
                if k == "open":
                    _, f, mode, delim = op
                    m = ms[f]
                    sf.open(rel(f), mode=mode, delim=delim)
                    if mode == "w" or (mode == "r+" and not m["exists"]):
                        cur = dict(f=f, mode="w", first=True, at=where[0])
                        m.update(exists=True, delim=delim, hdr=None, n=0, empty=True)
                    else:
                        cur = dict(f=f, mode=mode, first=False, at=where[0])
                elif k == "with-open":
                    # the object of a finished with-block: same as open ... close
                    _, f, nk, hk = op
                    m = ms[f]
                    sf.open(rel(f), mode="w")
                    with sf:
                        sf.write(chunk(FDK[f], 0, nk), header=HDRS[hk])
                    m.update(exists=True, delim=None, hdr=HDRS[hk], n=nk, empty=False)
                    cur = None
                elif k == "write":
                    _, nk, hk = op
                    f = cur["f"]
                    m = ms[f]
                    sf.write(chunk(FDK[f], m["n"], nk), header=HDRS[hk])
                    if cur["first"]:
                        m["hdr"] = HDRS[hk]
                    cur["first"] = False
                    m["n"] += nk
                    m["empty"] = False
                elif k == "close":
                    sf.close()
                    cur = None
                elif k == "chdir":
                    where[0] = 1 - where[0]
                    os.chdir(tmp if where[0] == 0 else os.path.join(tmp, "elsewhere"))
                elif k == "repr":
                    r = repr(sf), str(sf)
                    if not all(isinstance(x, str) for x in r):
                        msg = "repr/str returned %r" % (r,)
                        break
                elif k == "peek":
                    h = sf.get_header()
                    if cur is not None and not cur["first"]:
                        m = ms[cur["f"]]
                        if cur["mode"] == "w" and isinstance(h, dict) and "_SIZE" not in h:
                            # the in-memory header of a handle that created the file carries no row count until the
                            # second write; the property speaks of the count stored in the file
                            continue
                        if not isinstance(h, dict) or h.get("_SIZE") != m["n"]:
                            msg = "get_header() on a handle of a %d-row file: %r" % (m["n"], h)
                            break
                        if sf.nrows != m["n"] or sf.get_nrows() != m["n"]:
                            msg = "nrows=%r on a handle of a %d-row file" % (sf.nrows, m["n"])
                            break
                        if sf.dtype != expect(FDK[cur["f"]], m).dtype:
                            msg = "dtype attribute %r, file holds %r" % (sf.dtype, expect(FDK[cur["f"]], m).dtype)
                            break
                elif k == "edit-header":
                    h = sf.get_header()          # "get a copy of the header": the caller does what it likes with it
                    if isinstance(h, dict):
                        h.pop("_SIZE", None)
                        h.pop("_DTYPE", None)
                        h["k"] = "edited"
                        h["_DELIM"] = ";"
                elif k == "read":
                    f = cur["f"]
                    data, hdr = sf.read(header=True)
                    r = check_read(data, hdr, FDK[f], ms[f])
                    if r:
                        msg = "file %d (dtype %s) read through the re-used object after %r: %s" % (f, FDK[f], hist[:-1], r)
                        break
                    hdr.clear()
                    if data.flags.writeable:
                        data[...] = chunk(FDK[f], 50, data.size).astype(data.dtype)
                else:
                    raise ValueError(op)
        except Exception as e:
            import traceback
            tb = traceback.extract_tb(e.__traceback__)[-1]
            msg = "operation %r after %r raised %s: %s [at %s:%d]" % (hist[-1] if hist else None, hist[:-1], type(e).__name__, str(e)[:200],
                                                                      os.path.basename(tb.filename), tb.lineno)
        hstate = fingerprint({k: v for k, v in sf.__dict__.items() if k not in ("_robj", "_filename")},
                             None if getattr(sf, "_robj", None) is None else
                             {k: v for k, v in sf._robj.__dict__.items() if k not in ("robj", "filename")})
        try:
            sf.close()
        except Exception:
            pass
        if msg is None and len(os.listdir("/proc/self/fd")) != nfd0:
            msg = "after the history %r and closing the object %d file descriptor(s) are still open" % (hist, len(os.listdir("/proc/self/fd")) - nfd0)
        if msg is None:
            for f in (0, 1):
                if ms[f]["exists"] and not ms[f]["empty"]:
                    try:
                        data, hdr = sfile.read(fns[f], header=True)
                        r = check_read(data, hdr, FDK[f], ms[f])
                    except Exception as e:
                        r = "reading it back raised %s: %s" % (type(e).__name__, str(e)[:200])
                    if r:
                        msg = "file %d (dtype %s) after the history %r and closing the object: %s" % (f, FDK[f], hist, r)
                        break
        raws = []
        for fn in fns:
            raws.append(hashlib.sha1(open(fn, "rb").read()).hexdigest() if os.path.exists(fn) else None)
            if os.path.exists(fn):
                os.unlink(fn)
        key = (tuple(raws), hstate, module_state(sm, ru),
               tuple((m["exists"], m["delim"], repr(m["hdr"]), m["n"], m["empty"]) for m in ms),
               # (the directory the object was opened in is part of the state: the name it stores is relative to it, and
               # the file-name attribute itself is left out of the fingerprint)
               None if cur is None else (cur["f"], cur["mode"], cur["first"], cur["at"]), where[0])
        ops = []
        last = hist[-1] if hist else None
        if last != ("repr",):
            ops.append(("repr",))
        if cur is not None and last != ("chdir",):
            ops.append(("chdir",))
        if cur is None:
            for f in (0, 1):
                m = ms[f]
                if m["n"] <= nmax:
                    ops.append(("open", f, "w", None))
                    ops.append(("open", f, "w", ","))
                    if not (m["exists"] and m["empty"]):
                        ops.append(("open", f, "r+", None))
                    ops.append(("with-open", f, 2, 1))
                if m["exists"] and not m["empty"]:
                    ops.append(("open", f, "r", None))
        else:
            m = ms[cur["f"]]
            if cur["mode"] in ("w", "r+") and m["n"] <= nmax:
                ops.append(("write", 1, 1))
                ops.append(("write", 2, 2))
            if cur["mode"] == "r" and last != ("read",):
                ops.append(("read",))
            if last != ("peek",):
                ops.append(("peek",))
            if last != ("edit-header",) and not cur["first"]:
                ops.append(("edit-header",))
            if not cur["first"]:
                ops.append(("close",))
        return msg, key, tuple(ops)

    def execute(hist, rec):
        st, out = in_child(lambda: child(hist, rec.tmp))
        if st != "ok":
            rec.fail(hist, "history could not be executed: %s" % (out,))
            return None
        msg, key, ops = out
        if msg:
            rec.fail(hist, msg)
            return None
        return key, ops

    return ctx.histories(name, [()], execute, depth=depth, nodedup_depth=nodedup_depth,
                         bounds=dict(files=2, dtypes={k: str(v) for k, v in DTS.items()}, rows_per_file_max=nmax + 2, depth=depth,
                                     events=["open(f, w|r+|r, delim) by a relative name", "with-open", "write", "close", "repr", "peek", "edit-header", "read", "chdir while a file is open"],
                                     isolation="every history in a forked child with pristine module state"))


def reused_recfile_world(ctx, name, depth, nodedup_depth=2, nmax=4):
    """the same for ONE low-level ``Recfile`` object and two header-less files (dtype A / dtype B, binary or ','-text):
    ``open()`` in 'w', 'r+' and 'r' mode, write, read (whole table, a row list, one column, a scalar row), repr, close."""
    from esutil import recfile
    import esutil.recfile.Util as ru

    def expect(dk, m):
        exp = chunk(dk, 0, m["n"])
        if m["delim"] is not None:
            exp = exp.astype(native(DTS[dk]))
        return exp

    def child(hist, tmp):
        fns = [os.path.join(tmp, "rfreuse_%d.rec" % f) for f in (0, 1)]
        for fn in fns:
            if os.path.exists(fn):
                os.unlink(fn)
        ms = [dict(exists=False, delim=None, n=0) for _ in (0, 1)]
        os.makedirs(os.path.join(tmp, "elsewhere"), exist_ok=True)
        os.chdir(tmp)
        where = [0]

        def rel(f):
            return ("" if where[0] == 0 else "../") + os.path.basename(fns[f])
        # the constructor needs a file: the object starts its life on a scratch file of a THIRD dtype
        f0 = os.path.join(tmp, "rfreuse_first.rec")
        first = np.zeros(5, dtype=[("zz", "<u2"), ("s", "S7")])
        recfile.write(f0, first)
        nfd0 = len(os.listdir("/proc/self/fd"))
        R = recfile.Recfile(f0, mode="r", dtype=first.dtype)
        R.read()
        R.close()
        cur = None
        msg = None
        try:
            for op in hist:
                k = op[0]
                if k == "open":
                    _, f, mode, delim = op
                    m = ms[f]
                    if mode == "w":
                        R.open(rel(f), mode="w", delim=delim)
                        m.update(exists=True, delim=delim, n=0)
                    else:
                        R.open(rel(f), mode=mode, delim=m["delim"], dtype=np.dtype(DTS[FDK[f]]),
                               **({} if op[3] == "count" else {"nrows": m["n"]}))
                    cur = dict(f=f, mode=mode, at=where[0])
                elif k == "write":
                    f = cur["f"]
                    m = ms[f]
                    R.write(chunk(FDK[f], m["n"], op[1]))
                    m["n"] += op[1]
                elif k == "close":
                    R.close()
                    cur = None
                elif k == "chdir":
                    where[0] = 1 - where[0]
                    os.chdir(tmp if where[0] == 0 else os.path.join(tmp, "elsewhere"))
                elif k == "repr":
                    if not isinstance(repr(R), str):
                        msg = "repr returned %r" % (repr(R),)
                        break
                elif k == "read":
                    f = cur["f"]
                    m = ms[f]
                    exp = expect(FDK[f], m)
                    sel = op[1]
                    if sel == "all":
                        got, e = R.read(), exp
                    elif sel == "rows":
                        got, e = R.read(rows=[m["n"] - 1, 0]), exp[[0, m["n"] - 1]] if m["n"] > 1 else exp[[0]]
                    elif sel == "col":
                        got, e = R.read(columns="a"), exp["a"]
                    elif sel == "slice":
                        got, e = R[-2:], exp[-2:]
                    else:
                        got, e = R[-1], exp[m["n"] - 1:m["n"]]
                    r = T.same_table(np.atleast_1d(got), e) if e.dtype.names else T.same_plain(got, e)
                    if r:
                        msg = "file %d (dtype %s, delim %r) read %r through the re-used object after %r: %s" % (f, FDK[f], m["delim"], sel, hist[:-1], r)
                        break
                    if isinstance(got, np.ndarray) and got.flags.writeable and got.size:
                        got[...] = got[::-1].copy()
                else:
                    raise ValueError(op)
        except Exception as e:
            import traceback
            tb = traceback.extract_tb(e.__traceback__)[-1]
            msg = "operation %r after %r raised %s: %s [at %s:%d]" % (hist[-1] if hist else None, hist[:-1], type(e).__name__, str(e)[:200],
                                                                      os.path.basename(tb.filename), tb.lineno)
        hstate = fingerprint({k: v for k, v in R.__dict__.items() if k not in ("robj", "filename")})
        try:
            R.close()
        except Exception:
            pass
        if msg is None and len(os.listdir("/proc/self/fd")) != nfd0:
            msg = "after the history %r and closing the object %d file descriptor(s) are still open" % (hist, len(os.listdir("/proc/self/fd")) - nfd0)
        if msg is None:
            for f in (0, 1):
                m = ms[f]
                if m["exists"] and m["n"] > 0:
                    try:
                        exp = expect(FDK[f], m)
                        raw = open(fns[f], "rb").read()
                        r = None
                        if m["delim"] is None and raw != exp.tobytes():
                            r = "file bytes are not the concatenation of the chunks (%d bytes, expected %d)" % (len(raw), exp.nbytes)
                        if r is None:
                            r = T.same_table(recfile.read(fns[f], np.dtype(DTS[FDK[f]]), delim=m["delim"]), exp)
                    except Exception as e:
                        r = "reading it back raised %s: %s" % (type(e).__name__, str(e)[:200])
                    if r:
                        msg = "file %d (dtype %s) after the history %r and closing the object: %s" % (f, FDK[f], hist, r)
                        break
        raws = []
        for fn in fns + [f0]:
            raws.append(hashlib.sha1(open(fn, "rb").read()).hexdigest() if os.path.exists(fn) else None)
            if os.path.exists(fn):
                os.unlink(fn)
        key = (tuple(raws), hstate, module_state(ru), tuple((m["exists"], m["delim"], m["n"]) for m in ms),
               None if cur is None else (cur["f"], cur["mode"], cur["at"]), where[0])
        ops = []
        last = hist[-1] if hist else None
        if last != ("repr",):
            ops.append(("repr",))
        if cur is not None and last != ("chdir",):
            ops.append(("chdir",))
        if cur is None:
            for f in (0, 1):
                m = ms[f]
                if m["n"] <= nmax:
                    ops.append(("open", f, "w", None))
                    ops.append(("open", f, "w", ","))
                    if m["exists"] and m["n"] > 0:
                        ops.append(("open", f, "r+", "nrows"))
                if m["exists"] and m["n"] > 0:
                    ops.append(("open", f, "r", "nrows"))
                    ops.append(("open", f, "r", "count"))
        else:
            m = ms[cur["f"]]
            if cur["mode"] in ("w", "r+") and m["n"] <= nmax:
                ops.append(("write", 1))
                ops.append(("write", 2))
            if cur["mode"] == "r":
                for sel in ("all", "rows", "col", "slice", "last"):
                    if last != ("read", sel):
                        ops.append(("read", sel))
            if m["n"] > 0:
                ops.append(("close",))
        return msg, key, tuple(ops)

    def execute(hist, rec):
        st, out = in_child(lambda: child(hist, rec.tmp))
        if st != "ok":
            rec.fail(hist, "history could not be executed: %s" % (out,))
            return None
        msg, key, ops = out
        if msg:
            rec.fail(hist, msg)
            return None
        return key, ops

    return ctx.histories(name, [()], execute, depth=depth, nodedup_depth=nodedup_depth,
                         bounds=dict(files=2, dtypes={k: str(v) for k, v in DTS.items()}, rows_per_file_max=nmax + 2, depth=depth,
                                     events=["open(f, w|r+|r, delim / nrows given or counted) by a relative name", "write", "close", "repr", "read(all|rows|col|slice|last)", "chdir while a file is open"],
                                     isolation="every history in a forked child with pristine module state"))
