"""FITS-WCS reference computation (papers II + TPV + SIP conventions) in long double.
Independent of esutil."""
import numpy as np

LD = np.longdouble
D2R = LD(np.pi) / LD(180)  # np.pi is double; recompute in long double below
try:
    D2R = np.arctan(LD(1)) * 4 / LD(180)
except Exception:
    pass

# PV coefficient set of the DECam header in the repository's test-suite (realistic magnitudes)
DECAM_PV = {
    "pv1_0": -0.009146940164239, "pv2_0": 0.002473995478717, "pv1_1": 1.027766536793,
    "pv2_1": 0.9994322877373, "pv1_2": -0.01398090700451, "pv2_2": -0.009716336331065,
    "pv1_4": -0.02952351234152, "pv2_4": -0.0193351226434, "pv1_5": 0.02138414797012,
    "pv2_5": -0.01497696747962, "pv1_6": -0.01585161167923, "pv2_6": 0.009830021177779,
    "pv1_7": 0.01013118530504, "pv2_7": -0.02110018166535, "pv1_8": -0.01181821848945,
    "pv2_8": -0.006334653583388, "pv1_9": 0.006892844593728, "pv2_9": 0.005586126448887,
    "pv1_10": -0.007570308721554, "pv2_10": -0.003747169969,
}
DECAM = dict(
    naxis1=2048, naxis2=4096, ctype1="RA---TPV", ctype2="DEC--TPV", crpix1=-4617.70016427,
    crpix2=-8609.62886415, cd1_1=-1.994451915262e-07, cd1_2=7.289650536209e-05,
    cd2_1=-7.300436190616e-05, cd2_2=-3.286398079503e-08, cunit1="deg", cunit2="deg",
    crval1=358.5617798256, crval2=-57.81766737102,
)
DECAM.update(DECAM_PV)

NAX = (2048, 4096)


def make_header(proj, crval, scale, rot, flip, crpix):
    """proj in TAN, TPV, TPV0 (no constant PV terms), TPVS (PV set rescaled by 0.3),
    TANPV (old scamp spelling: -TAN ctype with PV keys), SIP2, SIP3, SIP4"""
    # variants of a valid header:  <proj>+A0 / +B0  one SIP polynomial written out as explicit zeros (distortion along
    # one axis only);  TPV+X0 / TPV+Y0  one PV set written out as the identity;  <proj>+Z  a tile-compressed image:
    # NAXISn describe the compressed table (8 x rows), ZNAXISn the image
    if "+" in proj:
        base, var = proj.split("+")
        h = make_header(base, crval, scale, rot, flip, crpix)
        if var in ("A0", "B0"):
            for k in list(h):
                if k.startswith(var[0].lower() + "_") and not k.endswith("order"):
                    h[k] = 0.0
        elif var in ("X0", "Y0"):
            ax = "1" if var == "X0" else "2"
            for k in list(h):
                if k.startswith("pv%s_" % ax):
                    h[k] = 1.0 if k == "pv%s_1" % ax else 0.0
        elif var == "Z":
            h["znaxis1"], h["znaxis2"] = h["naxis1"], h["naxis2"]
            h["naxis1"], h["naxis2"] = 8, h["znaxis2"]
        else:
            raise ValueError(proj)
        return h
    c, s = np.cos(np.deg2rad(rot)), np.sin(np.deg2rad(rot))
    sc = scale / 3600.0
    h = dict(naxis1=NAX[0], naxis2=NAX[1], crpix1=float(crpix[0]), crpix2=float(crpix[1]),
             crval1=float(crval[0]), crval2=float(crval[1]), cunit1="deg", cunit2="deg",
             cd1_1=-sc * c * (-1 if flip else 1), cd1_2=sc * s, cd2_1=sc * s, cd2_2=sc * c)
    if proj == "TAN":
        h.update(ctype1="RA---TAN", ctype2="DEC--TAN")
    elif proj in ("TPV", "TPV0", "TPVS", "TANPV"):
        if proj == "TANPV":
            h.update(ctype1="RA---TAN", ctype2="DEC--TAN")
        else:
            h.update(ctype1="RA---TPV", ctype2="DEC--TPV")
        pvscale = 0.3 if proj == "TPVS" else 1.0
        for k, v in DECAM_PV.items():
            lin = k in ("pv1_1", "pv2_1")
            val = (1 + (v - 1) * pvscale) if lin else v * pvscale
            if proj == "TPV0" and k in ("pv1_0", "pv2_0"):
                val = 0.0
            h[k] = val
    elif proj in ("SIP2", "SIP3", "SIP4", "SIP23", "SIP32"):
        # SIP23 / SIP32: A_ORDER and B_ORDER differ (each polynomial has its own order)
        aorder, border = (int(proj[-2]), int(proj[-1])) if len(proj) == 5 else (int(proj[-1]), int(proj[-1]))
        order = max(aorder, border)
        h.update(ctype1="RA---TAN-SIP", ctype2="DEC--TAN-SIP", a_order=aorder, b_order=border,
                 ap_order=order + 1, bp_order=order + 1)
        co = {(2, 0): 1e-6, (1, 1): -2e-6, (0, 2): 3e-6, (3, 0): 1e-10, (2, 1): -2e-10, (1, 2): 1.5e-10,
              (0, 3): -1e-10,
              # fourth order: coefficients below the float64 epsilon, yet 1e-3 px at the chip corners
              (4, 0): 1.0e-16, (3, 1): -5.0e-17, (2, 2): 8.0e-17, (1, 3): 4.0e-17, (0, 4): -1.2e-16}
        for (p, q), v in co.items():
            if p + q <= aorder:
                h["a_%d_%d" % (p, q)] = v
            if p + q <= border:
                h["b_%d_%d" % (q, p)] = -0.7 * v
    else:
        raise ValueError(proj)
    return h


def has_distortion(h):
    return "pv1_1" in h or "a_order" in h


def forward(h, x, y, distort=True):
    """pixel -> (lon, lat) in degrees (float64 values of a long double computation)"""
    x = np.atleast_1d(np.asarray(x, dtype=LD))
    y = np.atleast_1d(np.asarray(y, dtype=LD))
    u = x - LD(h["crpix1"])
    v = y - LD(h["crpix2"])
    proj = h["ctype1"][4:].strip()
    if proj == "-TAN-SIP" and distort:
        ao = max(h["a_order"], h["b_order"])      # each polynomial has its own order; absent coefficients are 0
        du = 0
        dv = 0
        for p in range(ao + 1):
            for q in range(ao + 1):
                du = du + LD(h.get("a_%d_%d" % (p, q), 0.0)) * u ** p * v ** q
                dv = dv + LD(h.get("b_%d_%d" % (p, q), 0.0)) * u ** p * v ** q
        u = u + du
        v = v + dv
    xi = LD(h["cd1_1"]) * u + LD(h["cd1_2"]) * v
    eta = LD(h["cd2_1"]) * u + LD(h["cd2_2"]) * v
    if proj in ("-TPV", "-TAN") and distort and "pv1_1" in h:
        def g(k):
            return LD(h.get(k, 0.0))
        xi2 = (g("pv1_0") + g("pv1_1") * xi + g("pv1_2") * eta + g("pv1_4") * xi ** 2 + g("pv1_5") * xi * eta
               + g("pv1_6") * eta ** 2 + g("pv1_7") * xi ** 3 + g("pv1_8") * xi ** 2 * eta
               + g("pv1_9") * xi * eta ** 2 + g("pv1_10") * eta ** 3)
        eta2 = (g("pv2_0") + g("pv2_1") * eta + g("pv2_2") * xi + g("pv2_4") * eta ** 2 + g("pv2_5") * eta * xi
                + g("pv2_6") * xi ** 2 + g("pv2_7") * eta ** 3 + g("pv2_8") * eta ** 2 * xi
                + g("pv2_9") * eta * xi ** 2 + g("pv2_10") * xi ** 3)
        xi, eta = xi2, eta2
    xi = xi * D2R
    eta = eta * D2R
    ra0 = LD(h["crval1"]) * D2R
    dec0 = LD(h["crval2"]) * D2R
    # gnomonic de-projection about (ra0, dec0): unit vector = c + xi*e + eta*n (unnormalised)
    cx, cy, cz = np.cos(dec0) * np.cos(ra0), np.cos(dec0) * np.sin(ra0), np.sin(dec0)
    ex = (-np.sin(ra0), np.cos(ra0), LD(0))
    nx = (-np.sin(dec0) * np.cos(ra0), -np.sin(dec0) * np.sin(ra0), np.cos(dec0))
    X = cx + xi * ex[0] + eta * nx[0]
    Y = cy + xi * ex[1] + eta * nx[1]
    Z = cz + xi * ex[2] + eta * nx[2]
    lon = np.arctan2(Y, X) / D2R % 360
    lat = np.arctan2(Z, np.hypot(X, Y)) / D2R
    return lon, lat


def sep(ra1, dec1, ra2, dec2):
    """great-circle separation in degrees, long double, atan2 form"""
    ra1, dec1, ra2, dec2 = [np.asarray(v, dtype=LD) * D2R for v in (ra1, dec1, ra2, dec2)]
    dl = ra2 - ra1
    num = np.hypot(np.cos(dec2) * np.sin(dl),
                   np.cos(dec1) * np.sin(dec2) - np.sin(dec1) * np.cos(dec2) * np.cos(dl))
    den = np.sin(dec1) * np.sin(dec2) + np.cos(dec1) * np.cos(dec2) * np.cos(dl)
    return (np.arctan2(num, den) / D2R).astype("f8")


def jacobian(h, x, y, step=1.0):
    """central difference of the reference, in arcsec/pixel with the -cos(dec) convention"""
    def wrap(d):
        d = np.asarray(d, dtype=LD)
        return (d + 180) % 360 - 180
    fac = LD(1) / (2 * LD(step))
    ra, dec = forward(h, x, y)
    x = np.atleast_1d(np.asarray(x, dtype=LD))
    y = np.atleast_1d(np.asarray(y, dtype=LD))
    rp, dp = forward(h, x + step, y)
    rm, dm = forward(h, x - step, y)
    r0p, d0p = forward(h, x, y + step)
    r0m, d0m = forward(h, x, y - step)
    cosdec = -np.cos(dec * D2R)
    return ((fac * 3600 * wrap(rp - rm) * cosdec).astype("f8"), (fac * 3600 * wrap(r0p - r0m) * cosdec).astype("f8"),
            (fac * 3600 * (dp - dm)).astype("f8"), (fac * 3600 * (d0p - d0m)).astype("f8"))


def inverse_fit_residual(h, ng=40):
    """max residual, in pixels over an ng x ng grid on the image, of the BEST
    least-squares polynomial inverse of the distortion of total degree
    (forward order + 1) -- i.e. the 'fitted-polynomial accuracy' an
    implementation that fits such an inverse can reach.  Independent fit:
    scaled variables, numpy lstsq."""
    gx = np.linspace(1, NAX[0], ng)
    gy = np.linspace(1, NAX[1], ng)
    X, Y = [a.ravel() for a in np.meshgrid(gx, gy)]
    u = X - h["crpix1"]
    v = Y - h["crpix2"]
    proj = h["ctype1"][4:].strip()
    if proj == "-TAN-SIP":
        ao = max(h["a_order"], h["b_order"])
        du = 0
        dv = 0
        for p in range(ao + 1):
            for q in range(ao + 1):
                du = du + h.get("a_%d_%d" % (p, q), 0.0) * u ** p * v ** q
                dv = dv + h.get("b_%d_%d" % (p, q), 0.0) * u ** p * v ** q
        # when A_ORDER != B_ORDER "the same degree" is ambiguous: the lenient reading (smaller order + 1) is used
        U, V, tu, tv, scale, const, deg = u + du, v + dv, u, v, 1.0, False, min(h["a_order"], h["b_order"]) + 1
    else:
        xi = h["cd1_1"] * u + h["cd1_2"] * v
        eta = h["cd2_1"] * u + h["cd2_2"] * v

        def g(k):
            return h.get(k, 0.0)
        U = (g("pv1_0") + g("pv1_1") * xi + g("pv1_2") * eta + g("pv1_4") * xi ** 2 + g("pv1_5") * xi * eta
             + g("pv1_6") * eta ** 2 + g("pv1_7") * xi ** 3 + g("pv1_8") * xi ** 2 * eta
             + g("pv1_9") * xi * eta ** 2 + g("pv1_10") * eta ** 3)
        V = (g("pv2_0") + g("pv2_1") * eta + g("pv2_2") * xi + g("pv2_4") * eta ** 2 + g("pv2_5") * eta * xi
             + g("pv2_6") * xi ** 2 + g("pv2_7") * eta ** 3 + g("pv2_8") * eta ** 2 * xi
             + g("pv2_9") * eta * xi ** 2 + g("pv2_10") * xi ** 3)
        tu, tv = xi, eta
        scale = np.sqrt(abs(h["cd1_1"] * h["cd2_2"] - h["cd1_2"] * h["cd2_1"]))
        const, deg = True, 4
    su = max(np.abs(U).max(), np.abs(V).max())
    a = U / su
    b = V / su
    cols = []
    for d in range(0 if const else 1, deg + 1):
        for j in range(d + 1):
            cols.append(a ** (d - j) * b ** j)
    A = np.array(cols).T
    r = 0.0
    for t in (tu, tv):
        c = np.linalg.lstsq(A, t, rcond=None)[0]
        r = max(r, float(np.abs(A @ c - t).max()))
    return r / scale
