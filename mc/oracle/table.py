"""reference side of the record-file checks (C01-C04): table construction from
plain literals, bit-exact comparison, header comparison with type identity."""
import numpy as np

KINDS = ["i1", "u1", "i2", "u2", "i4", "u4", "i8", "u8", "f4", "f8", "?", "c8", "c16", "S1", "S3", "S12"]


def typestr(kind, order):
    """descr type string of a kind in a byte order ('<' or '>')"""
    dt = np.dtype(kind)
    if dt.kind == "S" or dt.itemsize == 1:
        return dt.str  # '|S3', '|i1', '|b1'
    return order + dt.str[1:]


def boundary_values(dt):
    """per-type list of boundary cell values (python objects / raw patterns)"""
    k = dt.kind
    if k in "iu":
        ii = np.iinfo(dt)
        return [ii.min, ii.max, 0, 1, -1 if k == "i" else 2, 7, ii.max // 3]
    if k == "b":
        return [True, False]
    if k == "S":
        w = dt.itemsize
        return [b"", b"a" * w, b"\0a"[:w], b"END"[:w], b"\xff" * w, b"a\0b"[:w], b" x"[:w]]
    return None


F8_BITS = [
    0x0000000000000000, 0x8000000000000000,  # +0, -0
    0x7ff0000000000000, 0xfff0000000000000,  # +inf, -inf
    0x7ff8000000000001, 0x7ff0000000000001, 0xfff8dead0000beef,  # quiet/signalling NaN payloads
    0x0000000000000001, 0x7fefffffffffffff, 0x3ff8000000000000,  # denormal min, max, 1.5
    0x3fd5555555555555, 0xc00921fb54442d18,
]
F4_BITS = [
    0x00000000, 0x80000000, 0x7f800000, 0xff800000, 0x7fc00001, 0x7f800001, 0xffc0beef,
    0x00000001, 0x7f7fffff, 0x3fc00000, 0x3eaaaaab, 0xc0490fdb,
]


def fill_field(f, start):
    """fill the field view f (any shape, any byte order) with boundary values,
    cycling from position ``start`` so that neighbouring cells differ"""
    base = f.dtype.base
    flat_n = f.size
    k = base.kind
    if k in "iubS":
        vals = boundary_values(base)
        a = np.array([vals[(start + i) % len(vals)] for i in range(flat_n)], dtype=base)
        f[...] = a.reshape(f.shape)
        return
    if k in "fc":
        comp = base.itemsize // (2 if k == "c" else 1)
        bits = F8_BITS if comp == 8 else F4_BITS
        ncomp = flat_n * (2 if k == "c" else 1)
        bo = ">" if base.byteorder == ">" else "<" if (base.byteorder == "<" or np.little_endian) else ">"
        u = np.dtype("%su%d" % (bo, comp))
        raw = np.array([bits[(start + i) % len(bits)] for i in range(ncomp)], dtype=u)
        # same-dtype assignment copies the bit patterns (NaN payloads survive)
        f[...] = raw.view(base).reshape(f.shape)
        return
    raise ValueError("unsupported kind %s" % base)


def make_table(descr, nrows, seed=0):
    """structured array of dtype ``descr`` (list of tuples literal) with boundary contents"""
    descr = [tuple(d) if len(d) < 3 else (d[0], d[1], tuple(d[2])) for d in descr]
    d = np.zeros(nrows, dtype=descr)
    for i, name in enumerate(d.dtype.names):
        fill_field(d[name], seed + 3 * i)
    return d


def same_table(a, b):
    """same names/types/shapes/order and identical bytes; returns None or a message"""
    if not isinstance(a, np.ndarray):
        return "result is %s, not an array" % type(a).__name__
    if a.dtype.descr != b.dtype.descr:
        return "dtype %r, expected %r" % (a.dtype.descr, b.dtype.descr)
    if a.shape != b.shape:
        return "shape %r, expected %r" % (a.shape, b.shape)
    if np.ascontiguousarray(a).tobytes() != np.ascontiguousarray(b).tobytes():
        return "bytes differ: got %r expected %r" % (
            np.ascontiguousarray(a).tobytes()[:48], np.ascontiguousarray(b).tobytes()[:48])
    return None


def same_plain(a, b):
    """plain (unstructured) arrays: same type str, shape and bytes"""
    if not isinstance(a, np.ndarray):
        return "result is %s, not an array" % type(a).__name__
    if a.dtype.names is not None:
        return "result is a structured array %r, expected a plain array" % (a.dtype.descr,)
    if a.dtype.str != b.dtype.str:
        return "dtype %r, expected %r" % (a.dtype.str, b.dtype.str)
    if a.shape != b.shape:
        return "shape %r, expected %r" % (a.shape, b.shape)
    if np.ascontiguousarray(a).tobytes() != np.ascontiguousarray(b).tobytes():
        return "bytes differ"
    return None


def teq(a, b):
    """equality with type identity, recursively (True != 1, -0.0 != 0.0)"""
    if type(a) is not type(b):
        return False
    if isinstance(a, (list, tuple)):
        return len(a) == len(b) and all(teq(x, y) for x, y in zip(a, b))
    if isinstance(a, dict):
        return set(a.keys()) == set(b.keys()) and all(teq(a[k], b[k]) for k in a)
    if isinstance(a, float):
        return repr(a) == repr(b)
    return a == b


def extract_columns(T, names):
    """packed structured array holding the named columns (in the given order)"""
    descr = [d for n in names for d in T.dtype.descr if d[0] == n]
    out = np.zeros(T.shape, dtype=descr)
    for n in names:
        out[n] = T[n]
    return out


LAYOUTS = ["contig", "strided", "reversed", "offset-view", "readonly"]
LAYOUTS_ND = ["2d(2,k)", "2d(k,1)", "2d(1,k)", "3d(2,1,k)"]


def relayout(a, layout):
    """the same rows in a different memory layout (a view into a larger buffer)"""
    n = a.shape[0]
    if layout == "contig":
        return a.copy()
    if layout == "strided":
        big = np.zeros(2 * n + 1, dtype=a.dtype)
        big.view("u1")[...] = 0x5A
        big[1::2] = a
        return big[1::2]
    if layout == "reversed":
        big = a[::-1].copy()
        return big[::-1]
    if layout == "offset-view":
        big = np.zeros(n + 3, dtype=a.dtype)
        big.view("u1")[...] = 0xA5
        big[2:2 + n] = a
        return big[2:2 + n]
    if layout == "readonly":
        r = a.copy()
        r.flags.writeable = False
        return r
    # a table handed over as an n-d array of records: it is written record by record in C order (one row each)
    if layout == "2d(2,k)":
        return a.copy().reshape(2, n // 2) if n % 2 == 0 else a.copy().reshape(1, n)
    if layout == "2d(k,1)":
        return a.copy().reshape(n, 1)
    if layout == "2d(1,k)":
        return a.copy().reshape(1, n)
    if layout == "3d(2,1,k)":
        return a.copy().reshape(2, 1, n // 2) if n % 2 == 0 else a.copy().reshape(1, 1, n)
    raise ValueError(layout)


def base_bytes(a):
    b = a
    while isinstance(b.base, np.ndarray):
        b = b.base
    return np.ascontiguousarray(b).view("u1").tobytes()
