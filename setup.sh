#!/bin/bash
# setup_cmd: offline; checks the interpreter and pre-warms the build cache for the current tree
set -e
cd "$(dirname "$0")"
/venv/bin/python -c "import numpy, scipy; print('numpy', numpy.__version__, 'scipy', scipy.__version__)"
/venv/bin/python -B mc/build.py
mkdir -p evidence replays
echo "setup ok"
