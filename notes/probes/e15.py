import numpy as np, warnings
warnings.simplefilter('ignore')
from esutil import sfile, coords, stat, random as erandom
def tryit(label, f):
    try:
        r=f()
        print(label, '->', repr(r)[:400])
    except BaseException as e:
        print(label, 'EXC', type(e).__name__, str(e)[:200])
fn='/tmp/x/t3.rec'
d=np.zeros(2,dtype=[('é','i4'),('x_1','f8'),('Size','i2')]); d['é']=[1,2]
tryit('nonascii name', lambda: (sfile.write(fn,d,header={'ключ':'значение','k':'é'}), sfile.read(fn,header=True)))
tryit('nonascii name text', lambda: (sfile.write(fn,d,delim=','), sfile.read(fn,header=True)))
tryit('nonascii col', lambda: sfile.read(fn,columns=['é']))
# rotate inverse
lon=np.array([0.,10.,200.,359.]); lat=np.array([-90.,0.,45.,90.])
ro,do=coords.rotate(10.,20.,30.,lon,lat); rb,db=coords.rotate(30.,-20.,10.,ro,do); print('rotate inv',rb,db)
# Generator
class S:
    def __init__(s,u): s.u=np.asarray(u,dtype='f8')
    def uniform(s,size=None): return s.u[:size].copy()
x=np.array([0.,1.,3.,4.]); p=np.array([1.,2.,2.,0.5])
g=erandom.Generator(p,x=x,rng=S([0,0.1,0.2,0.5,0.9,1.0]))
print(g.xvals,g.pcum)
tryit('sample', lambda: g.sample(6))
g=erandom.Generator(p,x=x,rng=S(g.pcum))
tryit('sample at nodes', lambda: g.sample(3))
g=erandom.Generator(lambda t: 1+t, xrange=[0,2], nx=5, rng=S([0,0.5,1.0]))
tryit('func', lambda: (g.xvals,g.pcum,g.sample(3)))
tryit('scalar', lambda: erandom.Generator(p,x=x,rng=S([0.5])).sample())
# cholesky
cov=np.array([[2.,0.5],[0.5,1.]]); mean=np.array([10.,20.])
rec=[]
def dist(n):
    r=np.arange(n,dtype='f8'); rec.append(r.copy()); return r
tryit('chol', lambda: erandom.cholesky_sample(cov,3,means=mean,dist=dist))
tryit('cholS', lambda: erandom.CholeskySampler(mean,cov,dist=dist).sample(3))
tryit('cholS scalar', lambda: erandom.CholeskySampler(mean,cov,dist=dist).sample())
tryit('rind', lambda: erandom.random_indices(5,5,seed=1))
tryit('rind nonuniq', lambda: erandom.random_indices(3,7,unique=False,seed=1))
tryit('rind too many', lambda: erandom.random_indices(3,7,seed=1))
tryit('rind legacy', lambda: erandom.random_indices(5,3,rng=np.random.RandomState(1)))
tryit('randsphere', lambda: coords.randsphere(3, ra_range=[10,10], dec_range=[-90,90], rng=np.random.default_rng(1)))
tryit('randsphere legacy', lambda: coords.randsphere(3, rng=np.random.RandomState(1)))
tryit('randsphere xyz', lambda: coords.randsphere(2, system='xyz', rng=np.random.RandomState(1)))
tryit('randsphere 0', lambda: coords.randsphere(0, rng=np.random.RandomState(1)))
tryit('randcap newstyle', lambda: coords.randcap(2,10.,20.,1.,rng=np.random.default_rng(1)))
# nperbin
for n in (1,2,5):
  for nper in (1,2,3,7):
    for ml in (True,False):
        x=np.array([5.,1.,3.,3.,2.][:n])
        def f():
            b=stat.Binner(x); b.dohist(nperbin=nper, mergelast=ml); return b['hist'], b['rev'], b['low'], b['high']
        tryit('nperbin n=%d nper=%d ml=%s'%(n,nper,ml), f)
