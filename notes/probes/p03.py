import numpy as np, warnings, itertools, collections, time, os, hashlib, copy
warnings.simplefilter('ignore')
from esutil import sfile
fn='/dev/shm/p03.rec'
DT={'A':[('a','<i4'),('x','<f8'),('s','S3')]}
def chunk(start,n,dt=DT['A']):
    d=np.zeros(n,dtype=dt); d['a']=np.arange(n)+start; d['x']=(np.arange(n)+start)/4; d['s']=[('r%d'%((i+start)%100)).encode() for i in range(n)]; return d
BAD={'type':[('a','<i8'),('x','<f8'),('s','S3')],'name':[('b','<i4'),('x','<f8'),('s','S3')],'count':[('a','<i4'),('x','<f8')],'shape':[('a','<i4'),('x','<f8',(2,)),('s','S3')],'order':[('a','>i4'),('x','>f8'),('s','S3')],'strlen':[('a','<i4'),('x','<f8'),('s','S4')]}
HDRS={0:None,1:{'k':1,'note':'x'}}
# model state: dict(exists, delim, hdr, rows(n), handle: None or dict(mode, wrote))
def fresh(): return dict(exists=False, delim=None, hdr=None, n=0)
class World:
    def __init__(self):
        if os.path.exists(fn): os.remove(fn)
        self.m=fresh(); self.h=None; self.hm=None
    def filebytes(self): return open(fn,'rb').read() if os.path.exists(fn) else None
def ops_enabled(w):
    ops=[]
    if w.h is None:
        for delim in (None,','):
            for hk in (0,1):
                for n in (1,2): ops.append(('create',delim,hk,n))
        for n in (1,2): ops.append(('append',n))
        if w.m['exists']:
            for k in BAD: ops.append(('append_bad',k))
        ops.append(('open','w',None)); ops.append(('open','w',','));
        ops.append(('open','r+',None))
    else:
        for n in (1,2): ops.append(('hwrite',n,0)); 
        ops.append(('hwrite',1,1))
        for k in ('type','order'): ops.append(('hwrite_bad',k))
        ops.append(('hclose',))
    return ops
problems=collections.Counter(); ex={}
def note(cat,hist): problems[cat]+=1; ex.setdefault(cat,list(hist))
def apply(w,op,hist):
    m=w.m
    k=op[0]
    try:
        if k=='create':
            _,delim,hk,n=op
            sfile.write(fn,chunk(0,n),delim=delim,header=HDRS[hk])
            m.update(exists=True,delim=delim,hdr=HDRS[hk],n=n,zeros=[])
        elif k=='append':
            n=op[1]
            try:
                sfile.write(fn,chunk(m['n'] if m['exists'] else 0,n),append=True)
            except Exception as e:
                if not m['exists']: note('append-to-missing:'+type(e).__name__,hist); # model: creates
                else: note('append-raised:'+type(e).__name__,hist)
                if not m['exists']:
                    sfile.write(fn,chunk(0,n)); 
            if not m['exists']: m.update(exists=True,delim=None,hdr=None,n=n,zeros=[])
            else: m['n']+=n
        elif k=='append_bad':
            kind=op[1]
            compatible_text = (kind=='order' and m['delim'] is not None)
            before=w.filebytes()
            try:
                sfile.write(fn,np.zeros(1,dtype=BAD[kind]),append=True); raised=False
            except Exception as e: raised=True
            if compatible_text:
                if raised: note('text-order-append-rejected',hist)
                else:
                    m['n']+=1; m.setdefault('zeros',[]).append(m['n']-1)
            else:
                if not raised: note('bad-append-accepted:%s:%s'%(kind,'bin' if m['delim'] is None else 'txt'),hist); return 'poison'
                elif w.filebytes()!=before: note('bad-append-changed-bytes',hist); return 'poison'
        elif k=='open':
            _,mode,delim=op
            if mode=='r+' and not m['exists']:
                try: w.h=sfile.SFile(fn,'r+'); w.hm=dict(mode='r+',first=True)
                except Exception as e: note('open-r+-missing:'+type(e).__name__,hist); return 'skip'
            else:
                w.h=sfile.SFile(fn,mode,delim=delim)
                w.hm=dict(mode=mode,first=(mode=='w'),delim=delim)
                if mode=='w': m.update(exists=True,delim=delim,hdr=None,n=0,pending_empty=True,zeros=[])
        elif k=='hwrite':
            _,n,hk=op
            start=m['n']
            w.h.write(chunk(start,n),header=HDRS[hk])
            if w.hm['first'] and w.hm['mode']=='w': m['hdr']=HDRS[hk]; 
            w.hm['first']=False; m['n']+=n; m.pop('pending_empty',None)
        elif k=='hwrite_bad':
            kind=op[1]
            if w.hm['first'] and w.hm['mode']=='w':
                return 'skip'
            compatible_text=(kind=='order' and m['delim'] is not None)
            try: w.h.write(np.zeros(1,dtype=BAD[kind])); raised=False
            except Exception: raised=True
            if compatible_text:
                if not raised: m['n']+=1; m.setdefault('zeros',[]).append(m['n']-1)
            elif not raised: note('bad-hwrite-accepted:%s:%s'%(kind,'bin' if m['delim'] is None else 'txt'),hist); return 'poison'
        elif k=='hclose':
            w.h.close(); w.h=None; w.hm=None
    except Exception as e:
        note('op-raised:%s:%s'%(k,type(e).__name__),hist); return 'poison'
    # check when no handle open
    if w.h is None and m['exists'] and not m.get('pending_empty'):
        try:
            data,hdr=sfile.read(fn,header=True)
        except Exception as e:
            note('read-raised:'+type(e).__name__,hist); return 'poison'
        exp=chunk(0,m['n'])
        for z in m.get('zeros',[]): exp[z]=np.zeros(1,dtype=exp.dtype)[0]
        if data.size!=m['n'] or hdr['_SIZE']!=m['n']: note('size-mismatch',hist); return 'poison'
        if data.tobytes()!=exp.tobytes(): note('data-mismatch',hist); return 'poison'
        user={k:v for k,v in hdr.items() if not k.startswith('_')}
        if user!=(m['hdr'] or {}): note('hdr-mismatch',hist); return 'poison'
    return 'ok'
def replay(hist):
    w=World()
    for op in hist:
        r=apply(w,op,hist)
        if r!='ok': return w,r
    return w,'ok'
def canon(w):
    m=w.m
    return (m['exists'],m['delim'],str(m['hdr']),m['n'],tuple(m.get('zeros',[])),m.get('pending_empty',False), None if w.h is None else (w.hm['mode'],w.hm['first']))
t0=time.time()
seen={canon(World())}; frontier=collections.deque([[]]); ntrans=0; maxd=0
DEPTH=5
while frontier:
    hist=frontier.popleft()
    if len(hist)>=DEPTH: continue
    w,_=replay(hist)
    for op in ops_enabled(w):
        h2=hist+[op]; w2,r=replay(h2); ntrans+=1
        if r!='ok': continue
        c=canon(w2)
        if w2.h is not None: w2.h.close()
        if c not in seen and w2.m['n']<=6: seen.add(c); frontier.append(h2); maxd=max(maxd,len(h2))
print('states',len(seen),'transitions',ntrans,'maxdepth',maxd,time.time()-t0)
for k,v in problems.most_common(): print(v,k,ex[k])
