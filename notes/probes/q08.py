import numpy as np, warnings, itertools, collections
warnings.simplefilter('ignore')
from esutil import coords, htm, random as er
problems=collections.Counter(); ex={}
def note(cat,e): problems[cat]+=1; ex.setdefault(cat,e)
LD=np.longdouble
def vinc(ra1,dec1,ra2,dec2):
    ra1,dec1,ra2,dec2=[np.deg2rad(np.asarray(v,dtype=LD)) for v in (ra1,dec1,ra2,dec2)]
    dl=ra2-ra1
    num=np.hypot(np.cos(dec2)*np.sin(dl), np.cos(dec1)*np.sin(dec2)-np.sin(dec1)*np.cos(dec2)*np.cos(dl))
    den=np.sin(dec1)*np.sin(dec2)+np.cos(dec1)*np.cos(dec2)*np.cos(dl)
    return np.rad2deg(np.arctan2(num,den)).astype('f8')
def offset(ra,dec,sep,pa):
    ra,dec,sep,pa=[np.deg2rad(np.asarray(v,dtype=LD)) for v in (ra,dec,sep,pa)]
    d2=np.arcsin(np.clip(np.sin(dec)*np.cos(sep)+np.cos(dec)*np.sin(sep)*np.cos(pa),-1,1))
    r2=ra+np.arctan2(np.sin(pa)*np.sin(sep)*np.cos(dec), np.cos(sep)-np.sin(dec)*np.sin(d2))
    return (np.rad2deg(r2)%360).astype('f8'), np.rad2deg(d2).astype('f8')
P=[(0.,90.),(0.,-90.),(0.,0.),(360.,0.),(359.999999,45.),(359.999999,-45.),(90.,0.),(45.,35.264389682754654),(123.456,-12.34),(271.3,66.6),(12.,90-1e-9),(300.,-90+1e-9)]
A=[];B=[]
for (ra,dec) in P:
    A.append((ra,dec)); B.append((ra,dec))
    A.append((ra,dec)); B.append((ra+360,dec))
    for q in P: A.append((ra,dec)); B.append(q)
    for s in (1e-12,1e-9,1e-6,1e-3,1,60,90,179,180-1e-3,180-1e-6,180-1e-9,180):
        for pa in np.arange(0,360,45.):
            r2,d2=offset(ra,dec,s,pa); A.append((ra,dec)); B.append((float(r2),float(d2)))
a1=np.array([p[0] for p in A]); d1=np.array([p[1] for p in A]); a2=np.array([p[0] for p in B]); d2=np.array([p[1] for p in B])
T=vinc(a1,d1,a2,d2)
same=(a1==a2)&(d1==d2)
res=coords.sphdist(a1,d1,a2,d2)
print('pairs',a1.size,'sphdist worst',np.abs(res-T).max(),'gcirc worst',np.abs(np.rad2deg(coords.gcirc(a1,d1,a2,d2))-T).max())
if np.abs(res-T).max()>1e-11: note('sphdist acc',(np.abs(res-T).max(),))
if not np.all(res[same]==0): note('identical not zero',())
if res.min()<0 or res.max()>180 or not np.all(np.isfinite(res)): note('range',())
sym=coords.sphdist(a2,d2,a1,d1)
if np.abs(sym-res).max()>1e-11: note('symmetry',(np.abs(sym-res).max(),))
p360=coords.sphdist(a1+360,d1,a2,d2)
if np.abs(p360-T).max()>1e-11: note('+360',(np.abs(p360-T).max(),))
# forms
for i in range(0,a1.size,7):
    args=(a1[i],d1[i],a2[i],d2[i])
    forms={'pyfloat':[float(v) for v in args],'0d':[np.array(v) for v in args],'len1':[np.array([v]) for v in args],'list':[[float(v)] for v in args],'npfloat':list(args),'mixed':[float(args[0]),float(args[1]),np.array([args[2]]),np.array([args[3]])]}
    for fn,fa in forms.items():
        try: r=np.atleast_1d(coords.sphdist(*fa))
        except Exception as e: note('form-exc:%s:%s'%(fn,type(e).__name__),(i,)); continue
        if r.size!=1 or r[0]!=res[i]: note('form-diff:'+fn,(i,r,res[i]))
    # units
    rad=[np.deg2rad(v) for v in args]
    r=np.atleast_1d(coords.sphdist(*rad,units=['rad','rad']))[0]
    if abs(np.rad2deg(r)-T[i])>1e-11: note('rad/rad',(i,))
    r=np.atleast_1d(coords.sphdist(*args,units=['deg','rad']))[0]
    if abs(np.rad2deg(r)-T[i])>1e-11: note('deg/rad',(i,))
r3=coords.sphdist(a1[:3],d1[:3],a2[:3],d2[:3]); 
if not np.array_equal(r3,res[:3]): note('len3',())
far=np.nonzero(T>179.999)[0][:3]
r3=coords.sphdist(a1[far],d1[far],a2[far],d2[far])
if not np.array_equal(r3,res[far]): note('len3 antipodal',(r3,res[far]))
f4=coords.sphdist(a1.astype('f4'),d1.astype('f4'),a2.astype('f4'),d2.astype('f4')); T4=vinc(a1.astype('f4').astype('f8'),d1.astype('f4').astype('f8'),a2.astype('f4').astype('f8'),d2.astype('f4').astype('f8'))
if np.abs(f4-T4).max()>1e-11: note('f4 inputs',(np.abs(f4-T4).max(),))
# C13 ids
S=P+[(90.*k,0.) for k in range(5)]+[(45.*k,90.) for k in range(9)]+[(45.*k,-90.) for k in range(9)]
ra=np.array([p[0] for p in S]); dec=np.array([p[1] for p in S])
prev=None
for d in range(0,25):
    h=htm.HTM(d); ids=h.lookup_id(ra,dec)
    if ids.min()<8*4**d or ids.max()>=16*4**d: note('id range',(d,))
    if prev is not None and not np.array_equal(ids>>2,prev): note('hierarchy',(d,))
    for i in range(0,ra.size,5):
        if h.lookup_id(float(ra[i]),float(dec[i]))[0]!=ids[i]: note('scalar id',(d,i))
    sw=h.lookup_id(ra.astype('>f8'),np.repeat(dec,2)[::2])
    if not np.array_equal(sw,ids): note('swapped/strided id',(d,))
    prev=ids
# C19 extras
for d in range(1,6):
    rng=np.random.RandomState(d); Amat=rng.normal(size=(d,d)); cov=Amat@Amat.T+0.5*np.eye(d); mean=np.arange(d)*1.5-2
    # own cholesky
    Lm=np.zeros((d,d))
    for i in range(d):
        for j in range(i+1):
            s=cov[i,j]-(Lm[i,:j]*Lm[j,:j]).sum()
            Lm[i,j]=np.sqrt(s) if i==j else s/Lm[j,j]
    for n in (1,3):
        for kind in ('ei','ones','ramp'):
            recs=[]
            def dist(k):
                if kind=='ones': r=np.ones(k)
                elif kind=='ramp': r=np.arange(k,dtype='f8')/7-1
                else: r=np.zeros(k); r[::n+1][:1]=1.0; r[0]=1.0
                recs.append(r.copy()); return r
            out=er.cholesky_sample(cov,n,means=mean,dist=dist); r=recs[-1].reshape(d,n)
            exp=(Lm@r).T+mean
            if out.shape!=(n,d) or np.abs(out-exp).max()>1e-12*max(1,np.abs(exp).max()): note('cholesky_sample',(d,n,kind))
            out0=er.cholesky_sample(cov,n,dist=dist); r=recs[-1].reshape(d,n)
            if np.abs(out0-(Lm@r).T).max()>1e-12*max(1,np.abs(exp).max()): note('cholesky_sample nomean',(d,n,kind))
            cs=er.CholeskySampler(mean,cov,dist=dist); out=cs.sample(n); r=recs[-1].reshape(d,n)
            if np.abs(out-((Lm@r).T+mean)).max()>1e-12*max(1,np.abs(exp).max()): note('CholeskySampler',(d,n,kind))
            o1=cs.sample(); r=recs[-1].reshape(d,1)
            if o1.shape!=(d,) or np.abs(o1-((Lm@r).T+mean)[0]).max()>1e-12*max(1,np.abs(exp).max()): note('CholeskySampler scalar',(d,kind))
for imax in range(0,6):
    for nrand in range(0,6):
        for uniq in (True,False):
            for mk in (lambda s: np.random.default_rng(s), lambda s: np.random.RandomState(s)):
                for seed in (0,1,2):
                    try: r=er.random_indices(imax,nrand,unique=uniq,rng=mk(seed)); err=None
                    except Exception as e: err=type(e).__name__
                    impossible=(uniq and nrand>imax) or (imax==0 and nrand>0)
                    if impossible:
                        if err is None: note('random_indices impossible accepted',(imax,nrand,uniq,r))
                        continue
                    if err: note('random_indices exc:'+err,(imax,nrand,uniq)); continue
                    r=np.atleast_1d(r)
                    if r.size!=nrand or (r.size and (r.min()<0 or r.max()>=imax)) or (uniq and len(set(r.tolist()))!=r.size): note('random_indices',(imax,nrand,uniq,r))
                    r2=np.atleast_1d(er.random_indices(imax,nrand,unique=uniq,rng=mk(seed)))
                    if not np.array_equal(r,r2): note('random_indices repro',())
for k,v in sorted(problems.items(),key=str): print(v,k,repr(ex[k])[:260])
print('done')
