import numpy as np, warnings, itertools, collections
warnings.simplefilter('ignore')
from esutil import htm, stat
problems=collections.Counter(); ex={}
def note(cat,e): problems[cat]+=1; ex.setdefault(cat,e)
LD=np.longdouble
def vinc(ra1,dec1,ra2,dec2):
    ra1,dec1,ra2,dec2=[np.deg2rad(np.asarray(v,dtype=LD)) for v in (ra1,dec1,ra2,dec2)]
    dl=ra2-ra1
    num=np.hypot(np.cos(dec2)*np.sin(dl), np.cos(dec1)*np.sin(dec2)-np.sin(dec1)*np.cos(dec2)*np.cos(dl))
    den=np.sin(dec1)*np.sin(dec2)+np.cos(dec1)*np.cos(dec2)*np.cos(dl)
    return np.rad2deg(np.arctan2(num,den)).astype('f8')
def offset(ra,dec,sep,pa):
    ra,dec,sep,pa=[np.deg2rad(np.asarray(v,dtype=LD)) for v in (ra,dec,sep,pa)]
    d2=np.arcsin(np.clip(np.sin(dec)*np.cos(sep)+np.cos(dec)*np.sin(sep)*np.cos(pa),-1,1))
    r2=ra+np.arctan2(np.sin(pa)*np.sin(sep)*np.cos(dec), np.cos(sep)-np.sin(dec)*np.sin(d2))
    return (np.rad2deg(r2)%360).astype('f8'), np.rad2deg(d2).astype('f8')
base=[(0.,0.),(0.,90.),(359.9999999,10.),(90.,0.),(45.,35.26),(10.,20.),(200.,-89.99)]
pts=list(base)
for (ra,dec) in base:
    for sep in (0.003,0.05,0.2,0.7,3.0,12.):
        for pa in (10.,130.,250.):
            r,d=offset(ra,dec,sep,pa); pts.append((float(r),float(d)))
ra=np.array([p[0] for p in pts]); dec=np.array([p[1] for p in pts])
D=vinc(ra[:,None],dec[:,None],ra[None,:],dec[None,:])
n1=7  # first set = base points
for depth in (3,6,8):
    h=htm.HTM(depth)
    for (rmin,rmax,nbin) in ((0.1,1.0,2),(1e-2,10.,3),(0.5,5.0,1)):
        for scale in (None,25.,np.linspace(20.,40.,n1)):
            for pre in (False,True):
                kw={}
                if pre:
                    ids=h.lookup_id(ra,dec); mn=ids.min(); hh,rev=stat.histogram(ids-mn,rev=True)
                    kw=dict(htmid2=ids,htmrev2=rev,minid=mn,maxid=ids.max())
                if scale is None: sc=np.ones(n1); R=D[:n1]; lo,hi=rmin,rmax
                else:
                    sc=np.broadcast_to(np.asarray(scale,dtype='f8'),(n1,)); R=np.deg2rad(D[:n1])*sc[:,None]; lo,hi=rmin,rmax
                try: l,u,c=h.bincount(lo,hi,nbin,ra[:n1],dec[:n1],ra,dec,scale=scale,**kw)
                except Exception as e: note('exc:'+type(e).__name__,(depth,rmin,rmax,nbin,scale is None,pre)); continue
                edges=10**(np.log10(lo)+np.arange(nbin+1)*(np.log10(hi)-np.log10(lo))/nbin)
                exp_lo=np.zeros(nbin,int); exp_hi=np.zeros(nbin,int)
                for i in range(nbin):
                    a,b=edges[i],edges[i+1]
                    exp_lo[i]=((R>=a*(1+1e-9))&(R<b*(1-1e-9))).sum(); exp_hi[i]=((R>=a*(1-1e-9))&(R<b*(1+1e-9))).sum()
                if not (np.all(c>=exp_lo) and np.all(c<=exp_hi)): note('counts',(depth,rmin,rmax,nbin,'noscale' if scale is None else np.ndim(scale),pre,c.tolist(),exp_lo.tolist(),exp_hi.tolist()))
                if not (np.allclose(l,edges[:-1]) and np.allclose(u,edges[1:])): note('edges',())
for k,v in sorted(problems.items(),key=str): print(v,k,repr(ex[k])[:300])
print('done')
