import numpy as np, warnings, itertools, collections, time
warnings.simplefilter('ignore')
from esutil import stat, random as er
problems=collections.Counter(); ex={}
def note(cat,e): problems[cat]+=1; ex.setdefault(cat,e)
def close(a,b,tol=1e-12): 
    a=np.asarray(a,dtype='f8'); b=np.asarray(b,dtype='f8')
    return a.shape==b.shape and np.all(np.abs(a-b)<=tol*np.maximum(1,np.maximum(np.abs(a),np.abs(b))))
V=[0.0,1.0,2.5,-1.0,10.0]; W=[1.0,2.0,0.0,1e6]
t0=time.time(); n=0
for L in (1,2,3,4):
    for x in itertools.product(V,repeat=L):
        xa=np.array(x)
        for w in itertools.product(W,repeat=L):
            wa=np.array(w)
            if wa.sum()==0: continue
            for calcerr in (False,True):
                for inputmean in (None,1.5):
                    n+=1
                    m,e,s=stat.wmom(xa,wa,calcerr=calcerr,sdev=True,inputmean=inputmean)
                    mu=(wa*xa).sum()/wa.sum() if inputmean is None else inputmean
                    ee=np.sqrt((wa**2*(xa-mu)**2).sum())/wa.sum() if calcerr else 1/np.sqrt(wa.sum())
                    ss=np.sqrt((wa*(xa-mu)**2).sum()/wa.sum())
                    if not (close(m,mu) and close(e,ee) and close(s,ss)): note('wmom',(x,w,calcerr,inputmean,m,e,s))
                    r2=stat.wmom(xa,wa,calcerr=calcerr,inputmean=inputmean)
                    if len(r2)!=2 or not close(r2[0],mu): note('wmom2',(x,w))
            # wmedian
            n+=1
            med=stat.wmedian(xa,wa)
            order=np.argsort(xa,kind='stable'); cum=np.cumsum(wa[order]); 
            # smallest sorted value whose cumulative weight reaches half total
            tot=wa.sum(); k=np.nonzero(cum>=tot/2)[0][0]; expv=xa[order][k]
            if med!=expv: note('wmedian',(x,w,med,expv))
print('wmom',n,time.time()-t0)
# 2-d
for L in (2,3):
    for d in (1,2,3):
        arr=np.arange(L*d,dtype='f8').reshape(L,d)**1.5
        for w in (np.arange(L)+1.0, (np.arange(L*d).reshape(L,d)%3)+0.5):
            for calcerr in (False,True):
                m,e,s=stat.wmom(arr,w,calcerr=calcerr,sdev=True)
                w2=w[:,None]*np.ones((1,d)) if w.ndim==1 else w
                mu=(w2*arr).sum(0)/w2.sum(0)
                ee=np.sqrt((w2**2*(arr-mu)**2).sum(0))/w2.sum(0) if calcerr else 1/np.sqrt(w2.sum(0))
                ss=np.sqrt((w2*(arr-mu)**2).sum(0)/w2.sum(0))
                if not(close(m,mu) and close(np.broadcast_to(e,mu.shape),ee) and close(s,ss)): note('wmom-2d',(L,d,w.ndim,calcerr,m,e,s,mu,ee,ss))
# sigma clip
def ref_clip(x,w,nsig,niter):
    idx=np.arange(x.size)
    def st(ix):
        xs=x[ix]
        if w is None: return xs.mean(),xs.std(),xs.std()/np.sqrt(xs.size)
        ws=w[ix]; mu=(ws*xs).sum()/ws.sum(); return mu,np.sqrt((ws*(xs-mu)**2).sum()/ws.sum()),np.sqrt((ws**2*(xs-mu)**2).sum())/ws.sum()
    m,s,e=st(idx); amb=False
    for it in range(niter):
        keep=np.abs(x[idx]-m)<nsig*s
        if keep.sum()==0: amb=True; break
        if keep.all(): break
        idx=idx[keep]; m,s,e=st(idx)
    return m,s,e,idx,amb
base=[1.0,1.1,0.9,1.05,0.95,1.02]
for nout in (0,1,2,3):
    for outs in itertools.product([50.,-30.,4.0,1.6],repeat=nout):
        x=np.array(base+list(outs))
        for perm in (0,1):
            if perm: x=x[::-1].copy()
            for w in (None,np.ones(x.size),np.linspace(0.5,2,x.size)):
                for nsig in (0.5,1.0,1.5,2.0,3.0,4.0,6.0):
                    for niter in (0,1,2,4,10):
                        m,s,e,ind=stat.sigma_clip(x,weights=w,nsig=nsig,niter=niter,get_err=True,get_indices=True,silent=True)
                        rm,rs,re,ridx,amb=ref_clip(x,w,nsig,niter)
                        n+=1
                        if amb: continue
                        if ind.tolist()!=ridx.tolist() or not(close(m,rm) and close(s,rs) and close(e,re)): note('sigma_clip',(x.tolist(),None if w is None else w.tolist(),nsig,niter,ind.tolist(),ridx.tolist(),m,rm))
# interplin
for xt in ([0.,1.],[0.,1.,3.],[-2.,-1.5,0.,4.,4.5],[1e-3,1.,1e3]):
    xt=np.array(xt)
    for yt in (xt**2, -xt+1, np.sin(xt)):
        u=np.concatenate([xt,(xt[:-1]+xt[1:])/2,[xt[0]-1,xt[0]-1e-9,xt[-1]+1e-9,xt[-1]+7]])
        got=stat.interplin(yt,xt,u)
        exp=np.interp(u,xt,yt)
        lo=u<xt[0]; hi=u>xt[-1]
        exp[lo]=yt[0]+(u[lo]-xt[0])*(yt[1]-yt[0])/(xt[1]-xt[0]); exp[hi]=yt[-1]+(u[hi]-xt[-1])*(yt[-1]-yt[-2])/(xt[-1]-xt[-2])
        if not close(got,exp,1e-11): note('interplin',(xt.tolist(),got,exp))
        g1=stat.interplin(yt,xt,float(u[1]))
        if not close(g1,exp[1:2],1e-11): note('interplin-scalar',(g1,))
# get_stats
for x in ([1.,2.,4.],[3.],[1.,1.,1.,9.]):
    x=np.array(x); r=stat.get_stats(x)
    if not(close(r['mean'],x.mean()) and close(r['std'],x.std()) and close(r['err'],x.std()/np.sqrt(x.size)) and r['min']==x.min() and r['max']==x.max()): note('get_stats',(x,r))
    w=np.arange(x.size)+1.0; r=stat.get_stats(x,weights=w); m,e,s=stat.wmom(x,w,calcerr=True,sdev=True)
    if not(close(r['mean'],m) and close(r['std'],s) and close(r['err'],e)): note('get_stats-w',(x,r))
# cov/cor
rng=np.random.RandomState(0)
for d in range(1,7):
    A=rng.normal(size=(d,d)); cov=A@A.T+np.eye(d)*0.1
    cor=stat.cov2cor(cov); back=stat.cor2cov(cor,np.sqrt(np.diag(cov)))
    if not close(back,cov,1e-12) or not close(np.diag(cor),np.ones(d)): note('covcor',(d,))
print('total',n,time.time()-t0)
# Generator accum sampler
class S:
    def __init__(s,u): s.u=np.asarray(u,dtype='f8')
    def uniform(s,size=None): return s.u[:size].copy()
for xg in ([0.,1.,2.,3.],[0.,0.5,3.,3.5,10.],[-5.,-1.,0.]):
    xg=np.array(xg)
    for p in (np.ones(xg.size), xg-xg[0]+0.5, np.exp(-(xg-xg.mean())**2), np.linspace(2,0.1,xg.size)):
        pc=np.concatenate([[0],np.cumsum((p[1:]+p[:-1])/2*np.diff(xg))]); pc/=pc[-1]
        u=np.concatenate([pc[1:], (pc[1:-1]+pc[2:])/2, [pc[1]*0.5, 0.0, 1-2**-53, 1.0]]); u=np.unique(u)
        g=er.Generator(p,x=xg,rng=S(u)); got=g.sample(u.size)
        exp=np.interp(u,pc[1:],xg[1:])
        lo=u<pc[1]
        exp[lo]=xg[1]+(u[lo]-pc[1])*(xg[2]-xg[1])/(pc[2]-pc[1])
        if not close(got,exp,1e-11): note('generator',(xg.tolist(),p.tolist(),u.tolist(),got.tolist(),exp.tolist()))
        if np.any(np.diff(got)<-1e-12): note('generator-monotone',(xg.tolist(),))
        ge=got[u>=pc[1]]
        if ge.min()<xg[0]-1e-12 or ge.max()>xg[-1]+1e-12: note('generator-range',(xg.tolist(),))
for k,v in problems.most_common(): print(v,k,repr(ex[k])[:400])
