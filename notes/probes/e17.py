import numpy as np, warnings
warnings.simplefilter('ignore')
import esutil as eu
from esutil import sfile, recfile
def tryit(label, f):
    try:
        r=f()
        print(label, '->', repr(r)[:300])
    except BaseException as e:
        print(label, 'EXC', type(e).__name__, str(e)[:200])
fn='/tmp/x/t4.rec'
d=np.zeros(3,dtype=[('a','>i4'),('x','<f8',(2,)),('s','S3')]); d['a']=[1,2,3]; d['x']=[[1,2],[3,4],[5,6]]; d['s']=[b'a',b'b\0c',b'END']
tryit('io.write', lambda: eu.io.write(fn,d,header={'k':1}))
tryit('io.read', lambda: eu.io.read(fn,header=True))
tryit('io.read rows cols', lambda: eu.io.read(fn,rows=[2,0],columns=['s','a']))
tryit('io.read native', lambda: eu.io.read(fn,ensure_native=True).dtype)
tryit('sfile.write swapped', lambda: sfile.write(d,fn))
tryit('recfile.write', lambda: recfile.write(fn,d))
tryit('recfile.read', lambda: recfile.read(fn,d.dtype))
tryit('recfile.read rows', lambda: recfile.read(fn,d.dtype,rows=[1],columns='a'))
tryit('Recfile nrows', lambda: len(recfile.Recfile(fn,dtype=d.dtype)))
tryit('io.read dtype', lambda: eu.io.read(fn,dtype=d.dtype))
def f():
    with recfile.Recfile(fn,dtype=d.dtype) as r:
        a=r[1:3]; b=r.read(columns=['s']); c=r[['a','s']][::2]; e=r.get_subset(rows=[0,2],columns=['x']).read(); g=r.read(rows=[1],split=True)
        s=r.get_subset(rows=[0,2]); s2=s(columns=['a']) if callable(s) else None
        return a,b,c,e,g
tryit('multi reads', f)
def f():
    with recfile.Recfile(fn,dtype=d.dtype) as r:
        s=r.get_subset(rows=[0,2]); s2=s.get_subset(columns=['a']); return s2.read(), s.read()
tryit('subset chain', f)
# 0 rows
tryit('write 0 rows', lambda: (sfile.write(fn,d[:0]), sfile.read(fn)))
# 2-d array write
tryit('write 2d', lambda: (sfile.write(fn,np.zeros((2,2),dtype=d.dtype)), sfile.read(fn).shape))
# strided write
big=np.zeros(6,dtype=d.dtype); big['a']=np.arange(6)
tryit('write strided', lambda: (sfile.write(fn,big[::2]), sfile.read(fn)['a']))
tryit('write strided text', lambda: (sfile.write(fn,big[::2],delim=','), sfile.read(fn)['a']))
