import io, itertools, collections
import esutil.pbar as P
problems=collections.Counter(); ex={}
def note(cat,e): problems[cat]+=1; ex.setdefault(cat,e)
_of=P.format_meter
def fm(n,total,elapsed,n_bars=20):
    if total is None: return '%d [elapsed: %s]'%(n,P.format_interval(elapsed))
    return _of(n,total,elapsed,n_bars=n_bars)
P.format_meter=fm
class Clock:
    def __init__(s,script,tick): s.script=script; s.t=1000.0; s.n=0; s.tick=tick
    def time(s):
        i=s.n; s.n+=1
        if i in s.script: s.t+=s.tick
        return s.t
class Rec:
    def __init__(s,items,haslen): s.items=list(items); s.pulled=0; s.haslen=haslen
    def __iter__(s): return s
    def __next__(s):
        if s.pulled>=len(s.items): s.pulled+=0; raise StopIteration
        v=s.items[s.pulled]; s.pulled+=1; return v
class RecLen(Rec):
    def __len__(s): return len(s.items)
n=0
for items in ([],[7],[1,2,3,4,5]):
  for haslen in (True,False):
    for desc,total,leave,simple,mininterval,miniters,n_bars in itertools.product(('','d'),(None,len(items),max(len(items)-2,1),len(items)+3),(True,False),(False,True),(0,0.5),(1,2,3),(1,20)):
        if simple and not haslen and total is None: continue
        # count clock readings in default run
        for ndev in (0,1,2):
            maxreads=2*len(items)+4
            for script in itertools.combinations(range(maxreads),ndev):
                src=(RecLen if haslen else Rec)(items,haslen)
                clk=Clock(set(script),1.0); P.time=clk
                f=io.StringIO()
                try:
                    g=P.pbar(src,desc=desc,total=total,leave=leave,file=f,mininterval=mininterval,miniters=miniters,n_bars=n_bars,simple=simple)
                    got=[]
                    for k,v in enumerate(g):
                        got.append(v)
                        if src.pulled!=k+1: note('not-lazy',(items,haslen,simple,k,src.pulled))
                    err=None
                except Exception as e: err=type(e).__name__+':'+str(e)[:50]
                n+=1
                if err: note('exc:'+err,(items,haslen,desc,total,leave,simple,mininterval,miniters,n_bars,script)); continue
                if got!=items: note('items',(items,got))
                out=f.getvalue()
                if (leave or simple) and not out.endswith('\n'): note('no-newline',(items,leave,simple,out[-20:]))
print('runs',n)
for k,v in sorted(problems.items(),key=str): print(v,k,repr(ex[k])[:200])
