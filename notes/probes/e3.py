import numpy as np, warnings
warnings.simplefilter('ignore')
import esutil as eu
from esutil import stat, numpy_util as nu
def tryit(label, f):
    try:
        r=f()
        print(label, '->', repr(r)[:400])
    except BaseException as e:
        print(label, 'EXC', type(e).__name__, str(e)[:200])
s=np.zeros(3,dtype=[('s','S3'),('x','>f8')]); s['x']=[1,2,3]
tryit('to_big (S first, already big)', lambda: nu.to_big_endian(s))
s2=np.zeros(3,dtype=[('s','S3'),('x','<f8')]); s2['x']=[1,2,3]
tryit('to_little (S first, already little)', lambda: nu.to_little_endian(s2))
s3=np.zeros(3,dtype=[('b','i1'),('x','<f8')]); s3['x']=[1,2,3]
tryit('to_little (i1 first, already little)', lambda: nu.to_little_endian(s3))
tryit('to_native S only', lambda: nu.to_native(np.array([b'a',b'bc'])))
p=np.arange(3,dtype='>i4')
tryit('to_native plain', lambda: (nu.to_native(p), nu.to_native(p).dtype))
tryit('to_native inplace', lambda: (nu.to_native(p, inplace=True) is p, p, p.dtype))
p0=np.array(5,dtype='>i4')
tryit('to_native 0d', lambda: (nu.to_native(p0), nu.to_native(p0).dtype))
pnc=np.arange(6,dtype='>i4')[::2]
tryit('to_native strided', lambda: (nu.to_native(pnc), nu.to_native(pnc).dtype))
tryit('to_native strided inplace', lambda: (nu.to_native(pnc, inplace=True), pnc.dtype))
tryit('keep_dtype', lambda: (nu.to_native(np.arange(3,dtype='>i4'), keep_dtype=True)))
tryit('byteswap twice', lambda: nu.byteswap(nu.byteswap(np.arange(3,dtype='>i4'))).tobytes()==np.arange(3,dtype='>i4').tobytes())
c=np.array([1+2j],dtype='>c8')
tryit('complex', lambda: (nu.to_native(c), nu.to_native(c).dtype))
tryit('is_big S', lambda: (nu.is_big_endian(np.array([b'a'])), nu.is_little_endian(np.array([b'a']))))
tryit('is_big =', lambda: (nu.is_big_endian(np.array([1],dtype='=i4')), nu.is_little_endian(np.array([1],dtype='=i4'))))
tryit('descr_to_native', lambda: nu.descr_to_native(s.dtype.descr))
# 2d struct
s4=np.zeros((2,2),dtype=[('x','>f8'),('v','>i2',(2,))]); s4['x']=[[1,2],[3,4]]; s4['v']=7
tryit('to_native 2d struct', lambda: nu.to_native(s4))
tryit('to_native 2d struct inplace', lambda: (nu.to_native(s4,inplace=True) is s4, s4.dtype))
u=np.array(['ab','c'],dtype='>U2')
tryit('unicode', lambda: (nu.to_native(u), nu.to_native(u).dtype))
