import numpy as np, warnings, copy, pickle
warnings.simplefilter('ignore')
import esutil as eu
from scipy.integrate import quad
import numpy.polynomial.legendre as L
def tryit(label, f):
    try:
        r=f()
        print(label, '->', repr(r)[:400])
    except BaseException as e:
        print(label, 'EXC', type(e).__name__, str(e)[:200])
C=eu.cosmology.Cosmo
for kw in (dict(), dict(omega_m=0.3, omega_l=0.6, omega_k=0.1, H0=70), dict(omega_m=1.2,omega_l=0.3,omega_k=-0.5, h=0.5), dict(flat=False, omega_k=0.0), dict(flat=True, omega_k=0.2)):
    c=C(**kw)
    print(kw, c.H0(), c.DH(), c.flat(), c.omega_m(), c.omega_l(), c.omega_k())
    om,ol,ok,DH=c.omega_m(),c.omega_l(),c.omega_k(),c.DH()
    ez=lambda z: 1/np.sqrt(om*(1+z)**3+ok*(1+z)**2+ol)
    x,w=L.leggauss(5)
    for (a,b) in ((0,0.5),(0.2,1.0),(0,5.0),(1.0,0.2)):
        ex=quad(ez,a,b,epsabs=1e-13,epsrel=1e-13)[0]
        gl=((b-a)/2*w*ez(x*(b-a)/2+(a+b)/2)).sum()
        im=c.Ezinv_integral(a,b)
        print('  ',a,b, 'impl-gl rel',(im-gl)/gl, 'gl-exact rel',(gl-ex)/ex, 'Dc',c.Dc(a,b), DH*im)
    print('  Dm,Da,Dl', c.Dm(0.2,1.0), c.Da(0.2,1.0), c.Dl(0.2,1.0), 'scinv', c.sigmacritinv(0.2,1.0), c.sigmacritinv(1.0,0.2), c.sigmacritinv(0.2,0.2))
    print('  vec', c.Dc([0.1,0.2],1.0), c.Dc(0.1,[0.5,1.0]), c.Dc(np.array([0.1,0.2],dtype='f4'),np.arange(4)[::2]), c.Da(0.0,np.array([1,2])))
    print('  V', c.V(0,1.0), c.dV(0.5), c.dV([0.5,1]), c.distmod(0.5), c.distmod([0.5]))
    tryit('  mismatch', lambda: c.Dc([0.1,0.2],[1.0,2,3]))
    for c2 in (c.copy(), copy.copy(c), copy.deepcopy(c), pickle.loads(pickle.dumps(c))):
        print('   copy', c2.H0()==c.H0(), c2.DH()==c.DH(), c2.flat()==c.flat(), c2.omega_l()==c.omega_l(), c2.omega_k()==c.omega_k(), c2.Dl(0.1,2.0)==c.Dl(0.1,2.0))
