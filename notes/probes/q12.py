import numpy as np, warnings, collections, io, itertools, os
warnings.simplefilter('ignore')
from esutil import htm, stat
import esutil.pbar as P
problems=collections.Counter(); ex={}
def note(cat,e): problems[cat]+=1; ex.setdefault(cat,e)
rng=np.random.RandomState(3)
ra=np.concatenate([rng.uniform(0,360,40),[0.,0.,359.9999999,1e-7,10.,10.]]); dec=np.concatenate([np.rad2deg(np.arcsin(rng.uniform(-1,1,40))),[90.,-90.,10.,10.,20.,20.]])
h=htm.HTM(6)
rad=np.linspace(0.5,25.,ra.size)
base=h.match(ra,dec,ra,dec,rad,maxmatch=0)
for nm,(a,b) in {'swapped':(ra.astype('>f8'),dec.astype('>f8')),'strided':(np.repeat(ra,2)[::2],np.repeat(dec,2)[::2]),'f4ish':(ra.astype('f4').astype('f8'),dec.astype('f4').astype('f8')),'list':(list(ra),list(dec))}.items():
    r=h.match(a,b,a,b,rad if nm!='swapped' else rad.astype('>f8'),maxmatch=0)
    if nm=='f4ish': continue
    if not all(np.array_equal(x,y) for x,y in zip(r,base)): note('variant:'+nm,())
fn='/dev/shm/q12.pairs'
n=h.match(ra,dec,ra,dec,rad,maxmatch=0,file=fn); p=htm.read_pairs(fn)
if n!=base[0].size or not (np.array_equal(p['i1'],base[0]) and np.array_equal(p['i2'],base[1]) and np.allclose(p['d12'],base[2],rtol=1e-15,atol=0)): note('file route',(n,base[0].size))
M=htm.Matcher(6,ra,dec); n2=M.match(ra,dec,rad,maxmatch=2,file=fn); p=htm.read_pairs(fn); b2=M.match(ra,dec,rad,maxmatch=2)
if n2!=b2[0].size or not np.array_equal(p['i2'],b2[1]): note('file route maxmatch',())
# matcher reuse histories
calls=[(ra[:5],dec[:5],1.0,0),(ra[10:30],dec[10:30],rad[10:30],2),(ra,dec,30.,1)]
fresh=[htm.Matcher(6,ra,dec).match(a,b,r,maxmatch=m) for a,b,r,m in calls]
for perm in itertools.permutations(range(3)):
    M=htm.Matcher(6,ra,dec)
    for i in perm:
        a,b,r,m=calls[i]; out=M.match(a,b,r,maxmatch=m)
        if not all(np.array_equal(x,y) for x,y in zip(out,fresh[i])): note('matcher history',(perm,i))
# C14 entry points agree
x=np.array([1.,2.,2.5,7.,3.,3.]); w=np.array([1.,2.,1.,.5,3.,1.])
b=stat.Binner(x,weights=w); b.dohist(binsize=2.0)
hm=stat.histogram(x,weights=w,binsize=2.0)
for k in b:
    if k=='sort_index': continue
    if not np.array_equal(np.asarray(b[k]),np.asarray(hm[k])): note('entry differ:'+k,())
hm2=stat.histogram(x,binsize=2.0,more=True)
for k in ('hist','rev','low','high','center','mean','std','err','median'):
    if k not in hm2: note('more missing:'+k,())
# C20 E4: exceptions through controlled pool + real pool conformance
import concurrent.futures as cf
def f(x):
    import time; time.sleep(0.02*(5-x)); return x*x
def g(x):
    if x==2: raise KeyError('boom')
    return x
for nproc in (1,3):
    for cs in (1,2):
        r=P.pmap(f,[0,1,2,3,4],nproc=nproc,chunksize=cs,file=io.StringIO())
        if r!=[0,1,4,9,16]: note('real pool order',(nproc,cs,r))
        try: P.pmap(g,[0,1,2,3],nproc=nproc,chunksize=cs,file=io.StringIO()); note('real pool exc not raised',())
        except KeyError: pass
        r=P.pmap(f,(i for i in range(3)),nproc=nproc,chunksize=cs,file=io.StringIO(),total=3)
        if r!=[0,1,4]: note('real pool gen',())
for k,v in sorted(problems.items(),key=str): print(v,k,repr(ex[k])[:260])
print('done')
