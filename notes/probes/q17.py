import numpy as np, warnings, itertools, collections
warnings.simplefilter('ignore')
from esutil import integrate
import numpy.polynomial.legendre as L
problems=collections.Counter(); ex={}
def note(cat,e): problems[cat]+=1; ex.setdefault(cat,e)
worst_w=0; worst_x=0; worst_int=0
for n in list(range(1,201))+[300,500,1000,2000]:
    xr,wr=L.leggauss(n)
    for (a,b) in ((-1.,1.),(0.,1.),(-3.,-1.),(5.,5+1e-9),(-1e6,1e6),(2.,1.),(0.,1e-300),(1e10,1e10+1)):
        x,w=integrate.gauleg(a,b,n)
        h=(b-a)/2; m=(a+b)/2
        X=m+h*xr; W=h*wr
        if x.size!=n or w.size!=n: note('size',(n,a,b))
        if not (np.all(np.isfinite(x)) and np.all(np.isfinite(w))): note('nonfinite',(n,a,b)); continue
        sgn=np.sign(b-a)
        lo,hi=min(a,b),max(a,b)
        if not (np.all(x>lo) and np.all(x<hi)):
            if (hi-lo)>1e-6*max(abs(lo),abs(hi),1e-300): note('inside',(n,a,b,x.min()-lo,hi-x.max()))
        if n>1 and not np.all(np.diff(x)*sgn>0): 
            if (hi-lo)>1e-6*max(abs(lo),abs(hi)): note('monotone',(n,a,b))
        if not np.all(w*sgn>0): note('wsign',(n,a,b))
        ex_=np.abs(x-X).max()/abs(h) ; ew=np.abs(w-W).max()/abs(b-a); es=abs(w.sum()-(b-a))/abs(b-a)
        worst_x=max(worst_x,ex_ if abs(h)>1e-6*max(abs(a),abs(b),1e-300) else 0); worst_w=max(worst_w,ew)
        if ew>1e-9 or es>1e-9: note('weights',(n,a,b,ew,es))
        if np.abs((x-m)+(x-m)[::-1]).max()>1e-12*abs(h) and abs(h)>1e-6*max(abs(a),abs(b)): note('xsym',(n,a,b))
        if np.abs(w-w[::-1]).max()>1e-12*abs(b-a): note('wsym',(n,a,b))
    if n<=30:
        for (a,b) in ((-1.,1.),(0.,2.),(-3.,-1.)):
            x,w=integrate.gauleg(a,b,n)
            for k in range(2*n):
                # monomial about midpoint scaled: p(t)=((t-m)/h)^k, integral = h*(1+(-1)^k)/(k+1)
                h=(b-a)/2; m=(a+b)/2
                val=(w*((x-m)/h)**k).sum(); exact=h*(1+(-1)**k)/(k+1)
                err=abs(val-exact)/((b-a)*1.0); worst_int=max(worst_int,err)
                if err>1e-9: note('exactness',(n,a,b,k,err))
                c=np.zeros(k+1); c[k]=1
                val=(w*L.legval((x-m)/h,c)).sum(); exact=(2*h if k==0 else 0.0)
                if abs(val-exact)/(b-a)>1e-9: note('exactness-P',(n,a,b,k))
print('worst x err/h',worst_x,'worst w err/(b-a)',worst_w,'worst poly err',worst_int)
# QGauss2
for nx in range(1,7):
    for ny in range(1,7):
        q=integrate.QGauss2(nx,ny)
        f=lambda x,y: np.exp(x)*np.cos(y)+x*y
        got=q.integrate_func([0.,2.],[-1.,3.],f)
        xr,wr=L.leggauss(nx); yr,wy=L.leggauss(ny)
        X=1+1*xr; Y=1+2*yr
        exp=sum(wr[i]*1*wy[j]*2*f(X[i],Y[j]) for i in range(nx) for j in range(ny))
        if abs(got-exp)>1e-9*abs(exp): note('qgauss2',(nx,ny,got,exp))
for k,v in sorted(problems.items(),key=str): print(v,k,repr(ex[k])[:200])
