import numpy as np, warnings
warnings.simplefilter('ignore')
from esutil import coords
def tryit(label, f):
    try:
        r=f()
        print(label, '->', repr(r)[:400])
    except BaseException as e:
        print(label, 'EXC', type(e).__name__, str(e)[:200])
tryit('antipodal scalar', lambda: coords.sphdist(10.,20.,190.,-20.))
tryit('near antipodal scalar', lambda: coords.sphdist(10.,20.,190.,-20.+1e-7))
tryit('antipodal len1', lambda: coords.sphdist(np.array([10.]),np.array([20.]),np.array([190.]),np.array([-20.])))
tryit('antipodal len3', lambda: coords.sphdist(np.array([10.,0,0]),np.array([20.,0,0]),np.array([190.,180,1]),np.array([-20.,0.0001,1])))
tryit('antipodal len5', lambda: coords.sphdist(np.array([10.,0,0,0,0]),np.array([20.,0,0,0,0]),np.array([190.,1,1,1,1]),np.array([-20.,1,1,1,1])))
tryit('gcirc antipodal', lambda: np.rad2deg(coords.gcirc(10.,20.,190.,-20.)))
tryit('small', lambda: coords.sphdist(10.,20.,10.,20.+1e-12))
tryit('rad', lambda: coords.sphdist(0.1,0.2,0.1,0.3,units=['rad','rad']))
# euler poles
for sel in range(1,7):
  for b in (False,True):
    # find target south pole: invert (0,-90) via inverse selector
    inv={1:2,2:1,3:4,4:3,5:6,6:5}[sel]
    lo,la=coords.euler(0.,-90.,inv,b1950=b)
    o=coords.euler(lo,la,sel,b1950=b)
    lo2,la2=coords.euler(0.,90.,inv,b1950=b)
    o2=coords.euler(lo2,la2,sel,b1950=b)
    print(sel,b,o,o2, coords.euler(0.,-90.,sel,b1950=b), coords.euler(123.,90.,sel,b1950=b))
tryit('rotate', lambda: coords.rotate(10.,20.,30.,np.array([0.,90.]),np.array([0.,-90.])))
tryit('shiftlon 350,-10', lambda: coords.shiftlon(350., shift=-10))
tryit('shiftlon 10, 10', lambda: coords.shiftlon(10., shift=10))
tryit('shiftlon wrap 180', lambda: coords.shiftlon([180.,180.1,0,359.9]))
tryit('eq2sdss pole', lambda: coords.eq2sdss([0.,95.,275.,185],[90.,0,0,32.5]))
tryit('sdss2eq', lambda: coords.sdss2eq([0.,90,-90, 0],[0.,0,0,180]))
tryit('eq2xyz', lambda: coords.eq2xyz(0.,90.))
tryit('xyz2eq', lambda: coords.xyz2eq(0.,0.,1.))
tryit('xyz2eq', lambda: coords.xyz2eq(1.,-1e-17,0.))
class R:
    def __init__(s, u, ps): s.u=u; s.ps=ps
    def random(s, n): return np.full(n, s.u)
    def uniform(s, low=0, high=1, size=None): return np.full(size, low+(high-low)*s.ps)
for dec in (0., 89.95, 90., -90.):
  for rad in (1e-6, 1.0, 100., 180.):
    for dorot in (False, True):
        r=R(0.999999,0.3)
        ra_, dec_, rr = coords.randcap(2, 37., dec, rad, get_radius=True, dorot=dorot, rng=r)
        d=coords.sphdist(37.,dec,ra_,dec_)
        print(dec, rad, dorot, ra_[0], dec_[0], rr[0], d[0], d[0]-rad)
