import numpy as np, warnings, itertools, collections, time
warnings.simplefilter('ignore')
from esutil import stat
problems=collections.Counter(); ex={}
def note(cat,e): problems[cat]+=1; ex.setdefault(cat,e)
V=[0.0,0.5,1.0,2.0,3.5,-1.0]
W=[1.0,2.0,0.5]
Y=[10.0,-3.0,4.0]
def close(a,b,tol=1e-12): return abs(a-b)<=tol*max(1,abs(a),abs(b))
t0=time.time(); n=0
for L in (1,2,3,4):
  for data in itertools.product(V,repeat=L):
    x=np.array(data)
    wts=[None]+[np.array([W[(i+s)%3] for i in range(L)]) for s in range(2)]
    ys=[None,np.array([Y[i%3]*(i+1) for i in range(L)])]
    for w in wts:
      for y in ys:
        for kw in (dict(binsize=1.0),dict(binsize=0.7,min=0.0),dict(nbin=2),dict(binsize=1.5,max=2.0)):
            n+=1
            try:
                b=stat.Binner(x,y=y,weights=w); b.dohist(**kw)
            except ValueError: continue
            p='x' if y is not None else ''
            if 'rev' not in b: 
                continue
            h=b['hist']; rev=b['rev']
            bs=b['binsize']; dmin=b[p+'min']
            for i in range(h.size):
                if not close(b[p+'low'][i],dmin+i*bs) or not close(b[p+'high'][i],dmin+(i+1)*bs) or not close(b[p+'center'][i],dmin+(i+0.5)*bs): note('edges',(data,kw))
                mem=rev[rev[i]:rev[i+1]]
                # use hist-count-consistent members (ignore trailing defect)
                mem=mem[:h[i]]
                if mem.size==0:
                    for k in ('mean','std','err','median'):
                        if b[p+k][i]!=-9999: note('sentinel:'+k,(data,kw))
                    if w is not None and b['whist'][i]!=0: note('sentinel:whist',(data,kw))
                    continue
                xm=x[mem]
                if not close(b[p+'mean'][i],xm.mean()): note('mean',(data,kw,i))
                if not close(b[p+'std'][i],xm.std()): note('std',(data,kw,i))
                if not close(b[p+'median'][i],np.median(xm)): note('median',(data,kw,i))
                if mem.size>=2 and not close(b[p+'err'][i],xm.std()/np.sqrt(mem.size)): note('err',(data,kw,i))
                if y is not None:
                    ym=y[mem]
                    if not close(b['ymean'][i],ym.mean()) or not close(b['ystd'][i],ym.std()) or not close(b['ymedian'][i],np.median(ym)): note('ystats',(data,kw,i))
                    if mem.size>=2 and not close(b['yerr'][i],ym.std()/np.sqrt(mem.size)): note('yerr',(data,kw,i))
                if w is not None:
                    wm=w[mem]
                    if not close(b['whist'][i],wm.sum()): note('whist:%s'%('single' if mem.size==1 else 'multi'),(data,kw,i,b['whist'][i],wm.sum()))
                    mu=(wm*xm).sum()/wm.sum()
                    if not close(b['w'+p+'mean'][i],mu): note('wmean',(data,kw,i))
                    if not close(b['w'+p+'std'][i],np.sqrt((wm*(xm-mu)**2).sum()/wm.sum())): note('wstd',(data,kw,i))
                    if mem.size>=2:
                        if not close(b['w'+p+'err'][i],1/np.sqrt(wm.sum())): note('werr',(data,kw,i))
                        if not close(b['w'+p+'err2'][i],np.sqrt((wm**2*(xm-mu)**2).sum())/wm.sum()): note('werr2',(data,kw,i))
    # nperbin
    for nper in range(1,L+2):
        for ml in (True,False):
            for lim in (dict(),dict(min=0.0,max=2.0)):
                n+=1
                try:
                    b=stat.Binner(x); b.dohist(nperbin=nper,mergelast=ml,**lim)
                except ValueError: continue
                order=np.argsort(x,kind='stable')
                if lim: order=np.array([j for j in order if 0.0<=x[j]<=2.0])
                chunks=[order[k:k+nper] for k in range(0,order.size,nper)]
                if ml and len(chunks)>=2 and len(chunks[-1])!=nper:
                    last=chunks.pop(); chunks[-1]=np.concatenate([chunks[-1],last])
                h=b['hist']; rev=b['rev']
                if h.tolist()!=[len(c) for c in chunks]: note('nperbin-hist',(data,nper,ml,lim,h.tolist(),[len(c) for c in chunks])); continue
                for i,c in enumerate(chunks):
                    mem=rev[rev[i]:rev[i+1]]
                    if mem.tolist()!=c.tolist(): note('nperbin-rev',(data,nper,ml,lim,i,mem.tolist(),c.tolist())); break
                    if b['low'][i]!=x[c].min() or b['high'][i]!=x[c].max(): note('nperbin-lowhigh',(data,nper,ml,lim,i)); break
                    if not close(b['mean'][i],x[c].mean()): note('nperbin-mean',(data,nper,ml,lim,i)); break
print('cases',n,time.time()-t0)
for k,v in problems.most_common(): print(v,k,repr(ex[k])[:300])
