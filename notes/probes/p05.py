import numpy as np, warnings, itertools, collections, time
warnings.simplefilter('ignore')
from esutil import stat
from esutil.stat import util as su
problems=collections.Counter(); ex={}
def note(cat,e): problems[cat]+=1; ex.setdefault(cat,e)
V=[0.0,0.5,1.0,1.5,2.0,3.7,-1.0,0.1,0.30000000000000004]
def ref(data,binsize,nbin,mn,mx):
    x=np.asarray(data,dtype='f8')
    xmin=x.min() if mn is None else mn; xmax=x.max() if mx is None else mx
    inlim=(x>=xmin)&(x<=xmax)
    if not inlim.any(): return None
    if nbin is not None: bs=float(xmax-xmin)/nbin; nb=nbin
    else: bs=binsize; nb=int(np.int64((xmax-xmin)/bs))+1
    with np.errstate(all='ignore'):
        q=(x-xmin)/bs
    b=np.where(np.isfinite(q), np.floor(q), -1).astype('i8')
    counted=inlim&(b>=0)&(b<nb)
    hist=np.zeros(nb,dtype='i8')
    members=[]
    order=np.argsort(x,kind='stable')
    for i in range(nb):
        mem=[j for j in order if counted[j] and b[j]==i]
        members.append(mem); hist[i]=len(mem)
    return hist,members
t0=time.time(); n=0
for L in (1,2,3):
  for data in itertools.product(V,repeat=L):
    for (binsize,nbin) in ((0.5,None),(1.0,None),(0.3,None),(2.5,None),(0.1,None),(None,1),(None,2),(None,3),(None,5)):
      for mn in (None,-1.0,0.5,1.0):
        for mx in (None,1.0,2.0,3.7):
            if mn is not None and mx is not None and mx<mn: continue
            r=ref(data,binsize,nbin,mn,mx)
            res={}
            for eng in (True,False):
                su.have_chist=eng
                try:
                    kw=dict(min=mn,max=mx,rev=True)
                    if nbin is not None: kw['nbin']=nbin
                    else: kw['binsize']=binsize
                    h,rev=stat.histogram(np.array(data),**kw); res[eng]=(h,rev)
                except ValueError as e:
                    res[eng]='VE'
                except Exception as e:
                    res[eng]=type(e).__name__
                n+=1
            su.have_chist=True
            a,b=res[True],res[False]
            if isinstance(a,str) or isinstance(b,str):
                if a!=b: note('engine-diff-exc',(data,binsize,nbin,mn,mx,a,b))
                if r is not None: note('unexpected-exc:%s'%a,(data,binsize,nbin,mn,mx))
                continue
            if not (np.array_equal(a[0],b[0]) and np.array_equal(a[1],b[1])): note('engine-diff',(data,binsize,nbin,mn,mx,a,b))
            if r is None: note('expected-exc-none',(data,binsize,nbin,mn,mx,a)); continue
            hist,members=r; h,rev=a
            if h.size!=hist.size: note('nbin-size',(data,binsize,nbin,mn,mx,h,hist)); continue
            if not np.array_equal(h,hist): note('hist-diff',(data,binsize,nbin,mn,mx,h,hist)); continue
            bad=False
            for i in range(h.size):
                sl=rev[rev[i]:rev[i+1]].tolist()
                if sl!=members[i]:
                    trailing = (len(sl)>len(members[i]) and sl[:len(members[i])]==members[i])
                    note('rev-slice-trailing' if trailing else 'rev-slice-diff',(data,binsize,nbin,mn,mx,i,sl,members[i],h,rev)); bad=True; break
print('calls',n,time.time()-t0)
for k,v in problems.most_common(): print(v,k,repr(ex[k])[:300])
