import numpy as np, warnings, itertools, collections, time, sys
warnings.simplefilter('ignore')
from esutil import numpy_util as nu
problems=collections.Counter(); ex={}
def note(cat,e): problems[cat]+=1; ex.setdefault(cat,e)
native='<' if sys.byteorder=='little' else '>'
def declared(dt):
    """set of declared orders among multi-byte leaves"""
    s=set()
    if dt.names:
        for n in dt.names: s|=declared(dt[n])
    else:
        b=dt.base.byteorder
        if b=='=': b=native
        if b in '<>': s.add(b)
    return s
def values(a):
    return a.astype(a.dtype.newbyteorder('=')) if not a.dtype.names else a.astype(np.dtype([(n,)+((a.dtype[n].base.newbyteorder('='),a.dtype[n].shape) if a.dtype[n].shape else (a.dtype[n].newbyteorder('='),)) for n in a.dtype.names]))
def eqvals(a,b):
    va,vb=values(a),values(b)
    if a.dtype.names:
        return all(np.array_equal(va[n],vb[n],equal_nan=va[n].dtype.kind in 'fc') for n in a.dtype.names)
    return np.array_equal(va,vb,equal_nan=va.dtype.kind in 'fc')
plain=['i1','u1','i2','u2','i4','u4','i8','u8','f2','f4','f8','c8','c16','?','S3','U2']
def mkplain(code,order,shape):
    dt=np.dtype(code).newbyteorder(order)
    n=int(np.prod(shape)) if shape else 1
    if dt.kind in 'SU': a=np.array(['ab','c','','zz','q','rs'][:n] if n<=6 else ['ab']*n,dtype=dt).reshape(shape)
    elif dt.kind=='?': a=(np.arange(n)%2==0).astype(dt).reshape(shape)
    elif dt.kind=='c': a=(np.arange(n)*1.5+1j*(np.arange(n)-2)).astype(dt).reshape(shape)
    else: a=(np.arange(n)*3+1).astype(dt).reshape(shape)
    return a
cases=[]
for code in plain:
    for order in '<>':
        for shape in ((),(3,),(2,3)):
            cases.append(('plain',code,order,shape,mkplain(code,order,shape)))
FL=[('x','f8'),('v','i2',(2,)),('s','S3'),('b','i1'),('m','u4',(2,2)),('c','c8')]
for k in (1,2,3):
    for fs in itertools.permutations(FL,k):
        if not any(np.dtype(f[1]).itemsize>1 and np.dtype(f[1]).kind not in 'S' for f in fs): continue
        for order in '<>':
            dt=np.dtype([ (f[0],np.dtype(f[1]).newbyteorder(order))+tuple(f[2:]) for f in fs])
            for shape in ((),(3,),(2,2)):
                a=np.zeros(shape,dtype=dt)
                for i,n in enumerate(dt.names):
                    if a[n].dtype.kind=='S': a[n]=b'ab'
                    else: a[n]=np.arange(a[n].size).reshape(a[n].shape)+i+1
                cases.append(('struct',tuple(f[0] for f in fs),order,shape,a))
funcs={'to_native':(nu.to_native,native),'to_big':(nu.to_big_endian,'>'),'to_little':(nu.to_little_endian,'<'),'byteswap':(nu.byteswap,None)}
t0=time.time(); ncall=0
for kind,code,order,shape,a0 in cases:
    has_order=bool(declared(a0.dtype))
    for fname,(fn,target) in funcs.items():
        for inplace in (False,True):
            for keep in (False,True):
                a=a0.copy(); before=a.tobytes(); bdt=a.dtype
                ncall+=1
                try: out=fn(a,inplace=inplace,keep_dtype=keep); err=None
                except Exception as e: note('exc:%s:%s'%(fname,type(e).__name__),(kind,code,order,shape,inplace,keep)); continue
                tag=(fname,kind, 'inplace' if inplace else 'copy','keep' if keep else '')
                if inplace:
                    if out is not a: note('inplace-not-same-object',tag+(code,order,shape))
                else:
                    if out is a or np.shares_memory(out,a): note('copy-shares-memory',tag+(code,order,shape))
                    if a.tobytes()!=before or a.dtype!=bdt: note('input-mutated',tag+(code,order,shape))
                cur=declared(a0.dtype)
                if target is None: swapped=has_order or True
                else: swapped = has_order and cur!={target}
                if fname=='byteswap': swapped=True
                if not keep:
                    if not eqvals(out,a0): note('values-changed',tag+(code,order,shape,str(out.dtype)))
                    if has_order:
                        want={target} if target else {('<' if order=='>' else '>')}
                        if declared(out.dtype)!=want: note('declared-order',tag+(code,order,shape,str(out.dtype)))
                else:
                    if out.dtype!=a0.dtype: note('keep-dtype-changed',tag+(code,order,shape))
                    expbytes=a0.byteswap().tobytes() if swapped else a0.tobytes()
                    if out.tobytes()!=expbytes: note('keep-bytes',tag+(code,order,shape))
                # idempotent
                if target is not None and not keep:
                    out2=fn(out)
                    if out2.dtype!=out.dtype or out2.tobytes()!=out.tobytes(): note('not-idempotent',tag+(code,order,shape))
                if fname=='byteswap' and not keep and not inplace:
                    out2=nu.byteswap(out)
                    if out2.tobytes()!=a0.tobytes() or out2.dtype!=a0.dtype: note('swap-twice',tag+(code,order,shape,str(out2.dtype),str(a0.dtype)))
    # predicates on plain
    if kind=='plain':
        d=declared(a0.dtype)
        if nu.is_big_endian(a0)!=(d=={'>'}) or nu.is_little_endian(a0)!=(d=={'<'}): note('predicate',(code,order,shape))
print('cases',len(cases),'calls',ncall,time.time()-t0)
for k,v in problems.most_common(): print(v,k,repr(ex[k])[:300])
