import numpy as np, warnings
warnings.simplefilter('ignore')
from esutil import coords, integrate
import esutil as eu
def tryit(label, f):
    try:
        r=f()
        print(label, '->', repr(r)[:400])
    except BaseException as e:
        print(label, 'EXC', type(e).__name__, str(e)[:200])
def vinc(ra1,dec1,ra2,dec2):
    ra1,dec1,ra2,dec2=[np.deg2rad(np.asarray(v,dtype=np.longdouble)) for v in (ra1,dec1,ra2,dec2)]
    dl=ra2-ra1
    num=np.hypot(np.cos(dec2)*np.sin(dl), np.cos(dec1)*np.sin(dec2)-np.sin(dec1)*np.cos(dec2)*np.cos(dl))
    den=np.sin(dec1)*np.sin(dec2)+np.cos(dec1)*np.cos(dec2)*np.cos(dl)
    return np.rad2deg(np.arctan2(num,den))
class R:
    def __init__(s, u, ps): s.u=u; s.ps=ps
    def random(s, n): return np.full(n, s.u)
    def uniform(s, low=0, high=1, size=None): return np.full(size, low+(high-low)*s.ps)
worst=0
for dec in (0., 45., 89.8, 89.95, 90., -90., -89.8):
  for rad in (1e-6, 1e-3, 1.0, 100., 179.9, 180.):
    for dorot in (False, True):
      for u in (0., 1e-12, 0.25, 0.999999, 1-2**-53):
        for ps in (0., 0.25, 0.5, 0.5+1e-9, 0.75, 1-2**-53):
          for ra in (0., 37., 359.999999, 360.):
            r=R(u,ps)
            ra_, dec_, rr = coords.randcap(1, ra, dec, rad, get_radius=True, dorot=dorot, rng=r)
            d=float(vinc(ra,dec,ra_,dec_)[0])
            exc=d-rad
            bad = (not np.isfinite(ra_[0])) or (not np.isfinite(dec_[0])) or ra_[0]<0 or ra_[0]>360 or abs(dec_[0])>90
            if exc>worst or bad:
                worst=max(worst,exc); print('exc',dec,rad,dorot,u,ps,ra,'->',ra_[0],dec_[0],rr[0],d,exc, 'BAD' if bad else '')
print('worst',worst)
print("== gauleg")
for n in (1,2,3,5):
    tryit('gauleg %d'%n, lambda: integrate.gauleg(-1.,1.,n))
tryit('gauleg a>b', lambda: integrate.gauleg(2.,1.,3))
tryit('QGauss2(3,4)', lambda: integrate.QGauss2(3,4).integrate_func([0,1],[0,2],lambda x,y: x*y))
tryit('QGauss2(3,3)', lambda: integrate.QGauss2(3,3).integrate_func([0,1],[0,2],lambda x,y: x*y))
import numpy.polynomial.legendre as L
for n in (2,5,10,50,200,1000,2000):
    x,w=integrate.gauleg(-1.,1.,n); xr,wr=L.leggauss(n)
    print(n, np.abs(x-xr).max(), (np.abs(w-wr)/wr).max(), w.sum()-2)
qg=integrate.QGauss(5)
tryit('qg func', lambda: qg.integrate([0.,2.], lambda x: x**3))
tryit('qg data', lambda: qg.integrate(np.array([0.,1.,3.]), np.array([0.,1.,3.])))
tryit('qg data npts', lambda: qg.integrate(np.array([0.,1.,3.]), np.array([0.,1.,3.]), npts=3))
tryit('qgauss', lambda: integrate.qgauss(np.array([0.,1.,3.]), np.array([0.,1.,3.]), 4))
