import concurrent.futures as cf, concurrent.futures._base as cfb, concurrent.futures.process as cfp
import io, itertools, sys
class Sched:
    def __init__(self, nworkers, prefix):
        self.nw=nworkers; self.prefix=list(prefix); self.choices=[]; self.alts=[]
        self.pending=[]; self.running=[]; self.done_order=[]
    def submit(self, fut, fn, args, kw):
        self.pending.append((fut,fn,args,kw)); self._refill()
    def _refill(self):
        while self.pending and len(self.running)<self.nw:
            self.running.append(self.pending.pop(0))
    def step(self):
        if not self.running: raise RuntimeError('deadlock: waiting with nothing running')
        i=len(self.choices)
        c=self.prefix[i] if i<len(self.prefix) else 0
        if c>=len(self.running): raise RuntimeError('replay divergence')
        self.choices.append(c); self.alts.append(len(self.running))
        fut,fn,args,kw=self.running.pop(c)
        self.done_order.append(fut.idx)
        if fut.set_running_or_notify_cancel():
            try: fut.set_result(fn(*args,**kw))
            except BaseException as e: fut.set_exception(e)
        self._refill()
    def drain(self):
        while self.running: self.step()
class CoFuture(cf.Future):
    def result(self, timeout=None):
        while not self.done(): self.sched.step()
        return super().result(0)
    def exception(self, timeout=None):
        while not self.done(): self.sched.step()
        return super().exception(0)
CUR={}
class ControlledPool(cfp.ProcessPoolExecutor):
    def __init__(self, max_workers=None, *a, **k):
        self._sched=Sched(max_workers or 1, CUR['prefix']); CUR['sched']=self._sched; self._n=0; self._shut=False
        CUR['max_workers']=max_workers
    def submit(self, fn, /, *args, **kw):
        if self._shut: raise RuntimeError('cannot schedule new futures after shutdown')
        f=CoFuture(); f.sched=self._sched; f.idx=self._n; self._n+=1
        self._sched.submit(f,fn,args,kw); return f
    def shutdown(self, wait=True, *, cancel_futures=False):
        self._shut=True
        if wait: self._sched.drain()
    def __exit__(self,*a): self.shutdown(wait=True); return False
cf.ProcessPoolExecutor=ControlledPool
from esutil import pbar
import esutil.pbar as P
# patch format_meter bug locally for prototype
_of=P.format_meter
def fm(n,total,elapsed,n_bars=20):
    if total is None: return '%d'%n
    return _of(n,total,elapsed,n_bars=n_bars)
P.format_meter=fm
def explore(items, nproc, chunksize):
    stack=[[]]; nex=0; outcomes=set(); orders=set()
    while stack:
        prefix=stack.pop()
        CUR['prefix']=prefix
        res=pbar.pmap(lambda x: x*x, items, chunksize=chunksize, nproc=nproc, file=io.StringIO())
        s=CUR['sched']; nex+=1
        outcomes.add(tuple(res)); orders.add(tuple(s.done_order))
        assert res==[x*x for x in items], (prefix,res)
        for i in range(len(prefix), len(s.choices)):
            for alt in range(1, s.alts[i]):
                stack.append(s.choices[:i]+[alt])
    return nex,len(outcomes),len(orders)
import time
t0=time.time()
for n in (0,1,3,5):
    for nproc in (1,2,3,8):
        for cs in (1,2,n+1):
            print(n,nproc,cs, explore(list(range(n)),nproc,cs))
print(time.time()-t0)
