import numpy as np, warnings, time, itertools
warnings.simplefilter('ignore')
from esutil import htm
def vinc(ra1,dec1,ra2,dec2):
    ra1,dec1,ra2,dec2=[np.deg2rad(np.asarray(v,dtype=np.longdouble)) for v in (ra1,dec1,ra2,dec2)]
    dl=ra2-ra1
    num=np.hypot(np.cos(dec2)*np.sin(dl), np.cos(dec1)*np.sin(dec2)-np.sin(dec1)*np.cos(dec2)*np.cos(dl))
    den=np.sin(dec1)*np.sin(dec2)+np.cos(dec1)*np.cos(dec2)*np.cos(dl)
    return np.rad2deg(np.arctan2(num,den)).astype('f8')
# (a) tiny radius misses
h=htm.HTM(10)
centres=[(10.,20.),(0.,0.),(359.9999999,-45.),(123.,89.9999),(200.,-89.99999),(90.,0.),(45.,35.26),(180.,60.)]
miss=extra=0; worst_d=0
for (ra,dec) in centres:
    for rad in (1e-6,3e-6,1e-5,1e-4):
        for f in (0.1,0.3,0.5,0.7,0.9,0.99,0.999,1.001,1.01,1.1,1.5):
            for pa in np.arange(0,360,45.):
                sep=f*rad
                d2=dec+sep*np.cos(np.deg2rad(pa)); r2=ra+sep*np.sin(np.deg2rad(pa))/max(np.cos(np.deg2rad(dec)),1e-12)
                if abs(d2)>90: continue
                true=float(vinc(ra,dec,r2,d2))
                m1,m2,d=h.match(ra,dec,r2,d2,rad,maxmatch=0)
                inside=true<=rad
                if abs(true-rad)<1e-9: continue
                if inside and m1.size==0: miss+=1; print('MISS',ra,dec,rad,f,pa,true)
                if (not inside) and m1.size: extra+=1; print('EXTRA',ra,dec,rad,f,pa,true,d)
                if m1.size: worst_d=max(worst_d,abs(d[0]-true))
print('miss',miss,'extra',extra,'worst d err',worst_d)
