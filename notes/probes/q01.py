import numpy as np, warnings, itertools, collections, os
warnings.simplefilter('ignore')
import esutil as eu
from esutil import sfile, recfile
problems=collections.Counter(); ex={}
def note(cat,e): problems[cat]+=1; ex.setdefault(cat,e)
fn='/dev/shm/q01.rec'
K=['i1','u1','i2','u2','i4','u4','i8','u8','f4','f8','?','c8','c16','S1','S3','S12']
SH=[(),(2,),(2,3),(2,1,2)]
def vals(dt,n):
    k=dt.kind
    if k in 'iu': ii=np.iinfo(dt); base=[ii.min,ii.max,0,1,7]
    elif k=='f': base=[0.0,-0.0,np.inf,-np.inf,1.5,5e-324 if dt.itemsize==8 else 1e-45]
    elif k=='c': base=[0,1+2j,complex(np.nan,1),complex(np.inf,-np.inf)]
    elif k=='b': base=[True,False]
    else: w=dt.itemsize; base=[b'',b'a'*w,b'\0a'[:w],b'END'[:w],b'\xff'*w]
    a=np.array([base[i%len(base)] for i in range(n)],dtype=dt)
    return a
def mk(fields,nrows):
    d=np.zeros(nrows,dtype=fields)
    for name in d.dtype.names:
        f=d[name]; f[...]=vals(f.dtype,f.size).reshape(f.shape)
    # NaN payloads
    return d
def nanpayload(d):
    for name in d.dtype.names:
        f=d[name]
        if f.dtype.kind=='f' and f.dtype.itemsize==8:
            v=f.view(f.dtype.newbyteorder('=') if False else f.dtype).reshape(-1)
            raw=np.array([0x7ff8000000000001,0x7ff0000000000001,0xfff8dead0000beef],dtype='u8')
            if f.dtype.byteorder=='>': raw=raw.byteswap()
            fv=f.reshape(-1); n=min(fv.size,3)
            fv.view('u8')[:n]=raw[:n]
    return d
tables=[]
for k in K:
    for sh in SH:
        for o in '<>':
            base=np.dtype(k)
            t=(o+k) if base.itemsize>1 and base.kind!='S' else k
            tables.append([('f0',t)+((sh,) if sh else ())])
for a,b in itertools.permutations(['i1','>f8','S3','<c8','?','>u2'],2):
    tables.append([('a',a,(2,)),('b',b)])
tables.append([('f%d'%i,('>'+k) if np.dtype(k).itemsize>1 and k[0]!='S' else k) for i,k in enumerate(K)])
writers={'sfile.write':lambda d,h: sfile.write(fn,d,header=h),'sfile.write.swapped':lambda d,h: sfile.write(d,fn,header=h),'io.write':lambda d,h: eu.io.write(fn,d,header=h),
 'SFile.write':lambda d,h: (lambda sf: (sf.write(d,header=h),sf.close()))(sfile.SFile(fn,'w'))}
def readers(d):
    r={}
    r['sfile.read']=lambda: sfile.read(fn,header=True)
    r['io.read']=lambda: eu.io.read(fn,header=True)
    def sfobj():
        with sfile.SFile(fn) as sf: return sf.read(header=True)
    r['SFile.read']=sfobj
    def sfbr():
        with sfile.SFile(fn) as sf: return sf[:], sf.get_header()
    r['SFile[:]']=sfbr
    def rec():
        with sfile.SFile(fn) as sf: off=sf._data_start
        with recfile.Recfile(fn,dtype=d.dtype,offset=off) as rf: return rf.read(), None
    r['Recfile(offset)']=rec
    def rec2():
        with sfile.SFile(fn) as sf: off=sf._data_start
        return recfile.read(fn,d.dtype,offset=off,nrows=d.size), None
    r['recfile.read(offset,nrows)']=rec2
    return r
n=0
for fields in tables:
    for nrows in (1,2,5):
        d=nanpayload(mk(fields,nrows))
        for hn,h in (('none',None),('dict',{'k':1,'s':'it\'s'})):
            for wn,w in writers.items():
                try: w(d,h)
                except Exception as e: note('write-exc:%s:%s'%(wn,type(e).__name__),(fields,nrows)); continue
                raw=open(fn,'rb').read()
                if not raw.endswith(d.tobytes()) : note('rawbytes',(fields,nrows,wn))
                for rn,rf in readers(d).items():
                    n+=1
                    try: out,hdr=rf()
                    except Exception as e: note('read-exc:%s:%s'%(rn,type(e).__name__),(fields,nrows,wn,str(e)[:60])); continue
                    if out.dtype!=d.dtype: note('dtype:%s'%rn,(fields,nrows,out.dtype))
                    elif out.tobytes()!=d.tobytes(): note('bytes:%s'%rn,(fields,nrows))
                    if hdr is not None:
                        if hdr['_SIZE']!=nrows or np.dtype(hdr['_DTYPE'])!=d.dtype: note('hdrmeta:%s'%rn,(fields,nrows,hdr))
                        if h and any(hdr.get(k)!=v for k,v in h.items()): note('hdruser:%s'%rn,(fields,nrows,hdr))
    # headerless
    for nrows in (1,3):
        d=mk(fields,nrows)
        for wn,w in (('recfile.write',lambda d: recfile.write(fn,d)),('Recfile.write',lambda d: (lambda r: (r.write(d),r.close()))(recfile.Recfile(fn,mode='w')))):
            w(d)
            if open(fn,'rb').read()!=d.tobytes(): note('raw-headerless',(fields,nrows,wn))
            for rn,rf in (('recfile.read',lambda: recfile.read(fn,d.dtype)),('Recfile nrows',lambda: recfile.Recfile(fn,dtype=d.dtype,nrows=d.size).read()),('io.read dtype',lambda: eu.io.read(fn,dtype=d.dtype))):
                n+=1
                try: out=rf()
                except Exception as e: note('read-exc:%s:%s'%(rn,type(e).__name__),(fields,nrows)); continue
                if out.dtype!=d.dtype or out.tobytes()!=d.tobytes(): note('headerless:%s'%rn,(fields,nrows))
print('roundtrips',n,'tables',len(tables))
for k,v in sorted(problems.items(),key=str): print(v,k,repr(ex[k])[:200])
