import numpy as np, subprocess, sys
code='''
import numpy as np
from esutil import htm, stat
h=htm.HTM(8)
ra=np.array([10.,200.,359.]); dec=np.array([-20.,45.,89.]); ra2=ra+1; dec2=dec-1
ids=h.lookup_id(ra2,dec2); hh,rev=stat.histogram(ids-ids.min(),rev=True)
V=%r
if V=='swapped': r=rev.astype('>i8')
elif V=='strided':
    big=np.zeros(rev.size*2,dtype=rev.dtype); big[::2]=rev; r=big[::2]
elif V=='i4': r=rev.astype('i4')
elif V=='f8': r=rev.astype('f8')
elif V=='native': r=rev
print(V, h.bincount(0.1,5.,3,ra,dec,ra2,dec2,htmid2=ids,htmrev2=r)[2])
'''
for v in ('native','strided','swapped','i4','f8'):
    p=subprocess.run([sys.executable,'-c',code%v],capture_output=True,text=True)
    print(v,p.returncode,p.stdout.strip()[-80:],p.stderr.strip()[-80:])
