import numpy as np, warnings, itertools, collections, time
warnings.simplefilter('ignore')
from esutil import numpy_util as nu
problems=collections.Counter(); ex={}
def note(cat,e): problems[cat]+=1; ex.setdefault(cat,e)
ALPH={
 'i8':[-2**63,-5,0,3,2**62,2**63-1],
 'u8':[0,1,7,2**63,2**64-1],
 'i4':[-2**31,-1,0,5,2**31-1],
 'u1':[0,1,128,255],
 'f8':[-np.inf,-2.5,-0.0,0.0,1e-300,3.0,np.inf],
 'f4':[-2.5,0.0,0.1,3.0,1e30],
 'S':[b'',b'a',b'ab',b'b',b'zz',b'zzz'],
 'U':['','a','ab','b','zz','zzz','é'],
}
t0=time.time(); n=0
for kind,A in ALPH.items():
    dt={'S':'S3','U':'U3'}.get(kind,kind)
    for L1 in (1,2,3):
        for a1 in itertools.permutations(A,L1):
            if kind=='f8' and (-0.0 in a1 and 0.0 in a1) and a1.index(-0.0)!=a1.index(0.0):
                pass
            arr1=np.array(a1,dtype=dt)
            uniq=len(set(arr1.tolist()))==len(a1)
            for L2 in (1,2,3):
                for a2 in itertools.product(A,repeat=L2):
                    arr2=np.array(a2,dtype=dt)
                    for pres in ((False,True) if list(arr1)==sorted(arr1) else (False,)):
                        n+=1
                        try: m1,m2=nu.match(arr1,arr2,presorted=pres); err=None
                        except Exception as e: err=type(e).__name__
                        if not uniq:
                            if err!='ValueError': note('dup-not-rejected:'+kind,(a1,a2,err))
                            continue
                        if err: note('raised:%s:%s'%(kind,err),(a1,a2,pres)); continue
                        exp=[(list(arr1).index(v),j) for j,v in enumerate(arr2) if v in list(arr1)]
                        got=list(zip(m1.tolist(),m2.tolist()))
                        if got!=exp: note('mismatch:'+kind,(a1,a2,pres,got,exp))
print('calls',n,time.time()-t0)
# unique
for A in ([1,2,3],[b'a',b'b'],[0.5,-1.0,2.0]):
    for L in range(1,6):
        for a in itertools.product(A,repeat=L):
            arr=np.array(a)
            idx=nu.unique(arr); vals=nu.unique(arr,values=True)
            ok=sorted(arr[idx].tolist())==sorted(set(arr.tolist())) and len(idx)==len(set(a))
            if not ok: note('unique', (a,idx.tolist()))
            if sorted(np.atleast_1d(vals).tolist())!=sorted(set(arr.tolist())): note('unique-values',(a,vals))
# rem_dup
for L in range(1,5):
    for a in itertools.product([1,2,3],repeat=L):
        for f in itertools.product([0,1,2],repeat=L):
            arr=np.array(a); fl=np.array(f)
            try:
                idx=np.atleast_1d(nu.rem_dup(arr,fl)); 
                i2,v2=nu.rem_dup(arr,fl,values=True)
            except Exception as e: note('rem_dup-exc:'+type(e).__name__,(a,f)); continue
            ok=len(idx)==len(set(a)) and sorted(arr[idx].tolist())==sorted(set(a)) and all(fl[i]==max(fl[j] for j in range(L) if a[j]==a[i]) for i in idx)
            if not ok: note('rem_dup',(a,f,idx.tolist()))
            if sorted(np.atleast_1d(v2).tolist())!=sorted(set(a)): note('rem_dup-values',(a,f,v2))
print(time.time()-t0)
for k,v in problems.most_common(): print(v,k,repr(ex[k])[:300])
