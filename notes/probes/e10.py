import numpy as np, warnings, os
warnings.simplefilter('ignore')
from esutil import sfile, recfile
fn='/tmp/x/t2.rec'
def tryit(label, f):
    try:
        r=f()
        print(label, '->', repr(r)[:600])
    except BaseException as e:
        print(label, 'EXC', type(e).__name__, str(e)[:200])
dt=[('a','<i4'),('x','<f8'),('s','S3')]
def mk(n,off=0):
    d=np.zeros(n,dtype=dt); d['a']=np.arange(n)+off; d['x']=(np.arange(n)+off)/4; d['s']=[('r%d'%(i+off)).encode() for i in range(n)]; return d
for delim in (None, ','):
    if os.path.exists(fn): os.remove(fn)
    print('--- delim',delim)
    tryit('append to missing', lambda: sfile.write(fn, mk(2), append=True, delim=delim, header={'k':1}))
    sfile.write(fn, mk(2), delim=delim, header={'k':1})
    tryit('  read', lambda: sfile.read(fn, header=True))
    tryit('append reopen', lambda: sfile.write(fn, mk(3,10), append=True, delim=delim, header={'k':2}))
    tryit('  read', lambda: sfile.read(fn, header=True))
    tryit('append reopen (no delim given)', lambda: sfile.write(fn, mk(1,20), append=True))
    tryit('  read', lambda: sfile.read(fn, header=True))
    b=open(fn,'rb').read()
    bad=np.zeros(2,dtype=[('a','<i8'),('x','<f8'),('s','S3')])
    tryit('append incompatible', lambda: sfile.write(fn, bad, append=True, delim=delim))
    print('  unchanged', open(fn,'rb').read()==b)
    bad2=np.zeros(2,dtype=[('a','>i4'),('x','>f8'),('s','S3')])
    tryit('append byteorder diff', lambda: sfile.write(fn, bad2, append=True, delim=delim))
    print('  unchanged', open(fn,'rb').read()==b)
    tryit('  read', lambda: sfile.read(fn, header=True)[0]['a'])
    bad3=np.zeros(2,dtype='f8')
    tryit('append plain', lambda: sfile.write(fn, bad3, append=True, delim=delim))
    print('  unchanged', open(fn,'rb').read()==b)
    def f():
        with sfile.SFile(fn,'r+') as sf:
            sf.write(mk(1,30)); sf.write(mk(2,40))
            return sf.read()['a'], sf.nrows, sf[0]
    tryit('two writes on r+ handle then read', f)
    tryit('  read', lambda: sfile.read(fn, header=True))
    def f():
        with sfile.SFile(fn,'w',delim=delim) as sf:
            sf.write(mk(1,50), header={'z':'q'}); sf.write(mk(2,60), header={'ignored':1})
            b1=open(fn,'rb').read()
            try:
                sf.write(bad)
            except Exception as e: print('   rejected', e)
            sf.write(mk(1,70))
        return sfile.read(fn,header=True)
    tryit('overwrite w/ multi writes', f)
    tryit('overwrite', lambda: (sfile.write(fn, mk(2,80), delim=delim), sfile.read(fn,header=True)))
    # recfile direct append
    def f():
        with recfile.Recfile(fn,mode='w',delim=delim) as r:
            r.write(mk(2)); r.write(mk(1,5))
        recfile.write(fn, mk(2,9), mode='r+', delim=delim, dtype=np.dtype(dt))
        return recfile.read(fn, dt, delim=delim)
    tryit('recfile append', f)
