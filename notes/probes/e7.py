import numpy as np, warnings, time
warnings.simplefilter('ignore')
import esutil as eu
from esutil import htm
def tryit(label, f):
    try:
        r=f()
        print(label, '->', repr(r)[:500])
    except BaseException as e:
        print(label, 'EXC', type(e).__name__, str(e)[:200])
def vinc(ra1,dec1,ra2,dec2):
    ra1,dec1,ra2,dec2=[np.deg2rad(np.asarray(v,dtype=np.longdouble)) for v in (ra1,dec1,ra2,dec2)]
    dl=ra2-ra1
    num=np.hypot(np.cos(dec2)*np.sin(dl), np.cos(dec1)*np.sin(dec2)-np.sin(dec1)*np.cos(dec2)*np.cos(dl))
    den=np.sin(dec1)*np.sin(dec2)+np.cos(dec1)*np.cos(dec2)*np.cos(dl)
    return np.rad2deg(np.arctan2(num,den)).astype('f8')
for d in (0,1,5,10,13,20,21,25):
    tryit('depth %d'%d, lambda: (htm.HTM(d).lookup_id([0.,90.,45., 359.99999],[0.,0.,90.,-90.]), 8*4**d, 16*4**d))
h=htm.HTM(10)
tryit('lookup scalar', lambda: h.lookup_id(10.,20.))
tryit('intersect', lambda: (h.intersect(10.,20.,0.05).size, h.intersect(10.,20.,0.05,inclusive=False).size))
tryit('intersect big', lambda: (htm.HTM(5).intersect(10.,20.,90.).size, htm.HTM(5).intersect(10.,20.,90.,inclusive=False).size))
tryit('intersect 180', lambda: (htm.HTM(3).intersect(10.,20.,180.).size))
tryit('intersect 0', lambda: (htm.HTM(3).intersect(10.,20.,0.)))
# tiny radii
ra1=np.array([10.]); dec1=np.array([20.])
for sep in (0., 3e-7,5e-7, 9e-7, 9.9e-7, 1.5e-6):
    tryit('tiny sep %g'%sep, lambda: h.match(ra1,dec1,ra1,dec1+sep,1e-6,maxmatch=0))
# match ordering and maxmatch
ra2=np.array([10.,10.,10.,10.001, 10.]); dec2=np.array([20.001,20.0005,20.,20.,20.0005])
tryit('match all', lambda: h.match([10.,50.,10.],[20.,0.,20.],ra2,dec2,0.01,maxmatch=0))
tryit('match -1', lambda: h.match([10.,50.,10.],[20.,0.,20.],ra2,dec2,0.01,maxmatch=-1))
tryit('match 2', lambda: h.match([10.,50.,10.],[20.,0.,20.],ra2,dec2,0.01,maxmatch=2))
tryit('match radii', lambda: h.match([10.,50.,10.],[20.,0.,20.],ra2,dec2,[0.01,0.01,0.0006],maxmatch=0))
tryit('match file', lambda: (h.match([10.,50.,10.],[20.,0.,20.],ra2,dec2,0.01,maxmatch=0,file='/tmp/x/pairs.txt'), htm.read_pairs('/tmp/x/pairs.txt')))
tryit('match none file', lambda: (h.match([10.],[20.],[50.],[50.],0.01,maxmatch=0,file='/tmp/x/pairs0.txt'), htm.read_pairs('/tmp/x/pairs0.txt')))
tryit('match r=180', lambda: htm.HTM(3).match([10.],[20.],[190.,0],[-20.,0],180.,maxmatch=0))
tryit('match r=0', lambda: h.match([10.],[20.],[10.,0],[20.,0],0.,maxmatch=0))
# bincount truncation
tryit('bincount', lambda: h.bincount(0.1,1.0,2,[10.],[20.],[10.,10.,10.,10., 10.],[20.09,20.05, 20.2, 20.5, 20.]))
# brute
rng=np.random.RandomState(1)
t0=time.time()
n=300
ra=rng.uniform(0,360,n); dec=np.rad2deg(np.arcsin(rng.uniform(-1,1,n)))
for depth in (1,4,8,12):
    hh=htm.HTM(depth)
    t0=time.time()
    m1,m2,d=hh.match(ra,dec,ra,dec,20.,maxmatch=0)
    print(depth, m1.size, time.time()-t0)
D=vinc(ra[:,None],dec[:,None],ra[None,:],dec[None,:])
print((D<=20).sum(), np.abs(d - D[m1,m2]).max())
