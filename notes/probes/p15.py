import numpy as np, warnings, itertools, collections, io, os
warnings.simplefilter('ignore')
import esutil as eu
from esutil import coords, stat, numpy_util as nu, htm, sfile, recfile, wcsutil, integrate
problems=collections.Counter(); ex={}
def note(cat,e): problems[cat]+=1; ex.setdefault(cat,e)
def variants(a):
    a=np.asarray(a)
    out={'native':a.copy()}
    if a.dtype.itemsize>1 and a.dtype.kind in 'iufc': out['swapped']=a.astype(a.dtype.newbyteorder('>'))
    if a.ndim>=1:
        big=np.zeros((a.shape[0]*2,)+a.shape[1:],dtype=a.dtype); big[::2]=a; out['strided']=big[::2]
    if a.dtype.kind=='f': out['f4']=a.astype('f4')
    ro=a.copy(); ro.flags.writeable=False; out['readonly']=ro
    return out
def snapshot(a):
    base=a if a.base is None else a.base
    return (np.asarray(base).tobytes(), a.dtype, a.strides, a.shape)
def run(name, f, arrays):
    """arrays: dict argname->base array; f(**arrays)"""
    for argname in arrays:
        for vname,v in variants(arrays[argname]).items():
            args={k:(x.copy() if k!=argname else v) for k,x in arrays.items()}
            snaps={k:snapshot(x) for k,x in args.items()}
            try: f(**args); err=None
            except Exception as e: err=type(e).__name__+':'+str(e)[:60]
            for k,x in args.items():
                if snapshot(x)!=snaps[k]: note('MUTATED %s arg=%s variant=%s'%(name,k,vname if k==argname else 'native'),err)
            if err and 'read-only' in err: note('WRITE-ATTEMPT %s arg=%s'%(name,argname),err)
ra=np.array([10.,200.,359.]); dec=np.array([-20.,45.,89.]); ra2=ra+1; dec2=dec-1
C=coords
for nm,fn in [('eq2gal',C.eq2gal),('gal2eq',C.gal2eq),('eq2ec',C.eq2ec),('ec2eq',C.ec2eq),('ec2gal',C.ec2gal),('gal2ec',C.gal2ec),('eq2sdss',C.eq2sdss),('eq2xyz',C.eq2xyz),('shiftlon',lambda a,b: C.shiftlon(a)),('shiftlon_s',lambda a,b: C.shiftlon(a,shift=10.)),('rotate',lambda a,b: C.rotate(10.,20.,30.,a,b)),('eq2xyz_rad',lambda a,b: C.eq2xyz(a,b,units='rad')),('radec2aitoff',C.radec2aitoff)]:
    run(nm,lambda a,b,fn=fn: fn(a,b),dict(a=ra,b=dec))
run('sdss2eq',lambda a,b: C.sdss2eq(a,b),dict(a=np.array([-10.,0,50]),b=np.array([-100.,0,100])))
x,y,z=C.eq2xyz(ra,dec); run('xyz2eq',lambda a,b,c: C.xyz2eq(a,b,c),dict(a=x,b=y,c=z))
run('xyz2eq_stomp',lambda a,b,c: C.xyz2eq(a,b,c,stomp=True,units='rad'),dict(a=x,b=y,c=z))
for units in (['deg','deg'],['rad','rad']):
    run('sphdist%s'%units[0],lambda a,b,c,d: C.sphdist(a,b,c,d,units=units),dict(a=ra,b=dec,c=ra2,d=dec2))
run('gcirc',lambda a,b,c,d: C.gcirc(a,b,c,d,getangle=True),dict(a=ra,b=dec,c=ra2,d=dec2))
# stat
xx=np.array([1.,2.,2.5,7.,3.]); ww=np.array([1.,2.,1.,.5,3.]); yy=xx*2
run('histogram',lambda a: stat.histogram(a,binsize=1.,rev=True),dict(a=xx))
run('histogram_w',lambda a,w: stat.histogram(a,weights=w,binsize=1.),dict(a=xx,w=ww))
run('Binner',lambda a,y,w: stat.Binner(a,y=y,weights=w).dohist(nperbin=2),dict(a=xx,y=yy,w=ww))
run('wmom',lambda a,w: stat.wmom(a,w,calcerr=True,sdev=True),dict(a=xx,w=ww))
run('wmedian',lambda a,w: stat.wmedian(a,w),dict(a=xx,w=ww))
run('sigma_clip',lambda a,w: stat.sigma_clip(a,weights=w,nsig=1.,silent=True),dict(a=xx,w=ww))
run('interplin',lambda v,x,u: stat.interplin(v,x,u),dict(v=yy,x=np.sort(xx),u=np.array([0.,2.2,9.])))
run('get_stats',lambda a,w: stat.get_stats(a,weights=w),dict(a=xx,w=ww))
run('get_stats_nsig',lambda a: stat.get_stats(a,nsig=2.),dict(a=xx))
cov=np.array([[2.,.5],[.5,3.]]); run('cov2cor',lambda c: stat.cov2cor(c),dict(c=cov)); run('cor2cov',lambda c,d: stat.cor2cov(c,d),dict(c=stat.cov2cor(cov),d=np.array([1.,2.])))
run('boxcar',lambda a: stat.boxcar_average(a,2),dict(a=xx))
# numpy_util
ia=np.array([3,1,2]); ib=np.array([2,2,0,5,3])
run('match',lambda a,b: nu.match(a,b),dict(a=ia,b=ib)); run('match_f',lambda a,b: nu.match(a,b),dict(a=ia*1.5,b=ib*1.5))
run('unique',lambda a: nu.unique(a),dict(a=ib)); run('rem_dup',lambda a,f: nu.rem_dup(a,f),dict(a=ib,f=np.array([0,1,2,3,4])))
st=np.zeros(3,dtype=[('x','>f8'),('v','<i2',(2,)),('s','S3')]); st['x']=[1,2,3]
def sv(a):
    o={'native':a.copy(),'strided':np.repeat(a,2)[::2]}; r=a.copy(); r.flags.writeable=False; o['readonly']=r; return o
for nm,fn in [('extract',lambda a: nu.extract_fields(a,['x','s'])),('remove',lambda a: nu.remove_fields(a,'x')),('add',lambda a: nu.add_fields(a,[('n','f4')],defaults=[3])),('reorder',lambda a: nu.reorder_fields(a,['s'])),('combine',lambda a: nu.combine_fields([a,np.zeros(3,dtype=[('q','i4')])])),('split',lambda a: nu.split_fields(a)),('compare',lambda a: nu.compare_arrays(a,a.copy())),('to_native',lambda a: nu.to_native(a)),('to_big',lambda a: nu.to_big_endian(a)),('to_little',lambda a: nu.to_little_endian(a)),('byteswap',lambda a: nu.byteswap(a)),('to_native_keep',lambda a: nu.to_native(a,keep_dtype=True)),('splitarray',lambda a: nu.splitarray(2,a)),('copy_fields_src',lambda a: nu.copy_fields(a,np.zeros(3,dtype=a.dtype)))]:
    for vname,v in sv(st).items():
        s0=snapshot(v)
        try: fn(v); err=None
        except Exception as e: err=type(e).__name__+':'+str(e)[:60]
        if snapshot(v)!=s0: note('MUTATED %s variant=%s'%(nm,vname),err)
        if err and 'read-only' in err: note('WRITE-ATTEMPT %s'%nm,err)
for nm,fn in [('to_native',nu.to_native),('to_big',nu.to_big_endian),('to_little',nu.to_little_endian),('byteswap',nu.byteswap)]:
    run('plain_'+nm,lambda a,fn=fn: fn(a),dict(a=np.arange(4,dtype='>i4')))
# files
fn_='/dev/shm/p15.rec'
for delim in (None,',',' '):
    for order in '<>':
        for opt in ({},{'padnull':True},{'ignorenull':True}):
            t=np.zeros(3,dtype=[('a',order+'i4'),('x',order+'f8',(2,)),('s','S3')]); t['a']=[1,2,3]; t['s']=[b'a',b'',b'abc']
            for vname,v in sv(t).items():
                for wname,wf in (('sfile',lambda v: sfile.write(fn_,v,delim=delim,**opt)),('recfile',lambda v: recfile.write(fn_,v,delim=delim,**opt)),('io',lambda v: eu.io.write(fn_,v,delim=delim,**opt))):
                    s0=snapshot(v)
                    try: wf(v); err=None
                    except Exception as e: err=type(e).__name__+':'+str(e)[:60]
                    if snapshot(v)!=s0: note('MUTATED write %s delim=%r order=%s variant=%s'%(wname,delim,order,vname),err)
                    if err and 'read-only' in err: note('WRITE-ATTEMPT write %s delim=%r order=%s'%(wname,delim,order),err)
# wcs
pv=eval(open('/repo/esutil/tests/test_wcsutil.py').read().split('TEST_HEADER = """\\\n')[1].split('\n"""')[0])
w=wcsutil.WCS(pv); px=np.array([10.,500.,2000.]); py=np.array([20.,3000.,100.]); sra,sdec=w.image2sky(px,py)
run('image2sky',lambda a,b: w.image2sky(a,b),dict(a=px,b=py)); run('image2sky_nd',lambda a,b: w.image2sky(a,b,distort=False),dict(a=px,b=py))
run('sky2image',lambda a,b: w.sky2image(a,b),dict(a=sra,b=sdec)); run('sky2image_nf',lambda a,b: w.sky2image(a,b,find=False),dict(a=sra,b=sdec)); run('sky2image_nd',lambda a,b: w.sky2image(a,b,find=False,distort=False),dict(a=sra,b=sdec))
run('jacobian',lambda a,b: w.get_jacobian(a,b),dict(a=px,b=py))
# cosmo
c=eu.cosmology.Cosmo(omega_m=0.3,omega_l=0.6,omega_k=0.1); z1=np.array([.1,.2,.3]); z2=np.array([.5,.6,.7])
for nm in ('Dc','Dm','Da','Dl','sigmacritinv'):
    run('cosmo.'+nm,lambda a,b,nm=nm: getattr(c,nm)(a,b),dict(a=z1,b=z2)); run('cosmo.%s_v1'%nm,lambda a,nm=nm: getattr(c,nm)(a,0.9),dict(a=z1)); run('cosmo.%s_v2'%nm,lambda a,nm=nm: getattr(c,nm)(0.05,a),dict(a=z1))
for nm in ('dV','distmod','Ez_inverse'): run('cosmo.'+nm,lambda a,nm=nm: getattr(c,nm)(a),dict(a=z1))
# htm
h=htm.HTM(8)
run('lookup_id',lambda a,b: h.lookup_id(a,b),dict(a=ra,b=dec)); run('htm.match',lambda a,b,c_,d,r: h.match(a,b,c_,d,r,maxmatch=0),dict(a=ra,b=dec,c_=ra2,d=dec2,r=np.array([2.,2.,2.])))
run('Matcher',lambda a,b,c_,d: htm.Matcher(8,a,b).match(c_,d,2.,maxmatch=0),dict(a=ra,b=dec,c_=ra2,d=dec2))
run('bincount',lambda a,b,c_,d,s: h.bincount(0.1,5.,3,a,b,c_,d,scale=s),dict(a=ra,b=dec,c_=ra2,d=dec2,s=np.array([1.,2.,3.])))
ids=h.lookup_id(ra2,dec2); hh,rev=stat.histogram(ids-ids.min(),rev=True)
run('bincount_pre',lambda i,r: h.bincount(0.1,5.,3,ra,dec,ra2,dec2,htmid2=i,htmrev2=r),dict(i=ids,r=rev))
# integrate
qg=integrate.QGauss(5); run('qgauss_data',lambda x,y: qg.integrate(x,y),dict(x=np.array([0.,1.,3.]),y=np.array([1.,2.,0.])))
run('wrap_ra_diff',lambda a: wcsutil.wrap_ra_diff(a),dict(a=np.array([-350.,10.,400.])))
for k,v in sorted(problems.items(),key=str): print(v,k,repr(ex[k])[:120])
print('done')
