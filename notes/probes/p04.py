import numpy as np, warnings, itertools, collections, time, os, decimal
warnings.simplefilter('ignore')
from esutil import sfile
fn='/dev/shm/p04.rec'
problems=collections.Counter(); ex={}
def note(cat,e): problems[cat]+=1; ex.setdefault(cat,e)
WS=b' \t\n\v\f\r'
kinds=['i1','u1','i2','u2','i4','u4','i8','u8','f4','f8','S1','S3','S12']
shapes=[(),(3,),(2,2)]
def vals(dt,n):
    k=dt.kind
    if k in 'iu':
        ii=np.iinfo(dt); base=[ii.min,ii.max,0,1,-1 if k=='i' else 2,7]
    elif k=='f':
        base=[0.0,-0.0,1/3,2/3*1e-300 if dt.itemsize==8 else 2/3*1e-30,2/3*1e300 if dt.itemsize==8 else 2/3*1e30,np.nan,np.inf,-np.inf,5e-324 if dt.itemsize==8 else 1e-45,1e308 if dt.itemsize==8 else 1e38, 123456.789]
    else:
        w=dt.itemsize
        base=[b'',b'a'*w,(b' a'+b'x'*w)[:w],(b'a '+b' '*w)[:w],b' '*w,(b',;'+b'|:'*w)[:w],(b'\ta')[:w],b'END'[:w],b'a']
    return [base[i%len(base)] for i in range(n)]
def mk(fields,nrows):
    d=np.zeros(nrows,dtype=fields)
    for name in d.dtype.names:
        f=d[name]; flat=vals(f.dtype.base if f.dtype.subdtype is None else f.dtype,f.size)
        f[...]=np.array(flat,dtype=f.dtype).reshape(f.shape)
    return d
def scan_cells(d):
    """sequence of (kind, bytes) in scan order across rows"""
    seq=[]
    for row in d:
        for name in d.dtype.names:
            v=np.atleast_1d(row[name]).ravel()
            for e in v:
                if v.dtype.kind=='S': seq.append(('S', bytes(e).ljust(v.dtype.itemsize,b'\0')))
                else: seq.append(('N',None))
    return seq
def predicate(d,delim):
    if delim==' ': return False
    seq=scan_cells(d)
    for (k0,_),(k1,b1) in zip(seq,seq[1:]):
        if k0=='N' and k1=='S' and b1[:1] in [bytes([c]) for c in WS]: return True
    return False
def tol_ok(x,y,digits):
    if np.isnan(x): return np.isnan(y)
    if np.isinf(x): return x==y
    if x==0: return y==0
    D=decimal.Decimal
    e=D(float(x)).adjusted()
    bound=D(5)*D(10)**(e-digits) + D(float(np.spacing(np.abs(x))))/2
    return abs(D(float(y))-D(float(x)))<=bound*D('1.0000001')
t0=time.time(); n=0
tables=[]
for k in kinds:
    for sh in shapes:
        for o in '<>':
            tables.append([('f0',o+k if k[0]!='S' else k)+((sh,) if sh else ())])
sub=['i1','u8','f4','f8','S1','S3']
for a,b in itertools.permutations(sub,2):
    for sh in ((),(2,)):
        tables.append([('f0',a)+((sh,) if sh else ()),('f1',b)])
for fields in tables:
    for nrows in (1,3):
        d=mk(fields,nrows)
        for delim in (',',':','\t',' ',';','|'):
            n+=1
            dd=d.copy()
            try:
                sfile.write(fn,dd,delim=delim); out,hdr=sfile.read(fn,header=True); err=None
            except Exception as e: err=type(e).__name__; out=None
            pred=predicate(d,delim)
            ok = err is None and out.dtype.names==d.dtype.names and out.shape==d.shape
            if ok:
                for name in d.dtype.names:
                    a=d[name]; b=out[name]
                    if b.dtype.byteorder not in '=|' or a.shape!=b.shape: ok=False; break
                    if a.dtype.kind in 'iuS': 
                        if not np.array_equal(a,b): ok=False; break
                    else:
                        dig=15 if a.dtype.itemsize==8 else 6
                        if not all(tol_ok(x,y,dig) for x,y in zip(a.ravel().astype(a.dtype.newbyteorder('=')),b.ravel())): ok=False; break
                if hdr.get('_DELIM')!=delim or any(c in str(t[1]) for t in hdr['_DTYPE'] for c in '<>=|'): ok=False
            if not ok: note(('fail','pred' if pred else 'NOPRED',delim,err),(fields,nrows))
            elif pred: note(('pass-with-pred',delim),(fields,nrows))
print('cases',n,time.time()-t0)
for k,v in sorted(problems.items(),key=str): print(v,k,repr(ex[k])[:200])
