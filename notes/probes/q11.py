import numpy as np, warnings, itertools, collections, copy, pickle
warnings.simplefilter('ignore')
import esutil as eu
from scipy.integrate import quad
import numpy.polynomial.legendre as L
problems=collections.Counter(); ex={}
def note(cat,e): problems[cat]+=1; ex.setdefault(cat,e)
C=eu.cosmology.Cosmo
x5,w5=L.leggauss(5); x10,w10=L.leggauss(10)
Z=[0,1e-6,0.1,0.5,1,2,5]
worst=collections.defaultdict(float)
ncos=0
for om in (0.05,0.3,1.0,1.5):
  for curv in ('flat',-0.5,-0.1,0.1,0.5):
    for H in ((('H0',30.),),(('H0',70.),),(('H0',120.),),(('h',0.7),)):
        kw=dict(H); kw['omega_m']=om
        if curv=='flat': ok_=0.0; ol=1-om
        else: ok_=curv; ol=1-om-curv; kw.update(omega_k=curv,omega_l=ol)
        E2=lambda z: om*(1+z)**3+ok_*(1+z)**2+ol
        if min(E2(z) for z in np.linspace(0,5,501))<=1e-3: continue
        c=C(**kw); ncos+=1
        H0=kw.get('H0',100*kw.get('h',1)); DH=2.99792458e5/H0
        if abs(c.DH()-DH)>1e-12*DH or c.H0()!=H0: note('DH/H0',(kw,))
        if bool(c.flat())!=(curv=='flat') or abs(c.omega_k()-ok_)>0 or abs(c.omega_l()-ol)>1e-15: note('params',(kw,c.flat(),c.omega_k(),c.omega_l()))
        ez=lambda z: 1/np.sqrt(E2(z))
        def gl(a,b,x,w): return ((b-a)/2*w*ez(x*(b-a)/2+(a+b)/2)).sum()
        def dm_of(dc):
            if curv=='flat': return dc
            s=np.sqrt(abs(ok_))/DH
            return np.sinh(dc*s)/s if ok_>0 else np.sin(dc*s)/s
        for a in Z:
            if abs(c.Ez_inverse(a)-ez(a))>1e-15*ez(a)*4: note('Ez_inverse',(kw,a))
            for b in Z:
                ref=gl(a,b,x5,w5); exact=quad(ez,a,b,epsabs=0,epsrel=1e-13)[0] if a!=b else 0.0
                im=c.Ezinv_integral(a,b)
                tol=1e-9*max(abs(ref),1e-300)
                if abs(im-ref)>tol: note('Ezinv vs GL5',(kw,a,b,im,ref))
                trunc=abs(ref-exact)
                if abs(im-exact)>1.5*trunc+1e-12*max(abs(exact),1e-30)+1e-9*abs(ref): note('Ezinv vs exact',(kw,a,b,im,exact,trunc))
                dc=c.Dc(a,b); 
                if abs(dc-DH*ref)>1e-9*abs(DH*ref)+1e-300: note('Dc',(kw,a,b))
                dm=c.Dm(a,b); 
                if abs(dm-dm_of(DH*ref))>1e-9*abs(dm_of(DH*ref))+1e-300: note('Dm',(kw,a,b,dm,dm_of(DH*ref)))
                da=c.Da(a,b); dl=c.Dl(a,b)
                if abs(da-dm/(1+b))>4e-16*abs(da) or abs(dl-dm*(1+b))>4e-16*abs(dl): note('Da/Dl identity',(kw,a,b))
                if curv=='flat' and dm!=dc: note('flat Dm!=Dc',(kw,a,b))
                if abs(c.Dc(b,a)+dc)>4e-16*abs(dc)*4: note('antisym',(kw,a,b,c.Dc(b,a),dc))
                sc=c.sigmacritinv(a,b)
                if b<=a:
                    if sc!=0: note('scinv nonzero',(kw,a,b,sc))
                elif a>0:
                    K=sc/(c.Da(0,a)*c.Da(a,b)/c.Da(0,b)); worst['Kmin']=min(worst.get('Kmin',K),K); worst['Kmax']=max(worst['Kmax'],K)
            # dV, V, distmod
            if a>0:
                dv=c.dV(a); ref=DH*(1+a)**2*c.Da(0,a)**2*ez(a)
                if abs(dv-ref)>1e-12*ref: note('dV',(kw,a,dv,ref))
                dmod=c.distmod(a); 
                if abs(dmod-5*np.log10(c.Dl(0,a)*1e5))>1e-12: note('distmod',(kw,a))
        for (a,b) in ((0,1),(0.1,2),(0,5)):
            v=c.V(a,b)
            f=lambda z: 4*np.pi*DH*(1+z)**2*(dm_of(DH*quad(ez,0,z,epsrel=1e-12)[0])/(1+z))**2*ez(z)
            exact=quad(f,a,b,epsrel=1e-10)[0]
            rel=abs(v-exact)/exact; worst['Vrel_%s'%b]=max(worst['Vrel_%s'%b],rel)
        # vector forms
        zz=np.array([0.1,0.5,2.0]); 
        for nm in ('Dc','Dm','Da','Dl','sigmacritinv'):
            f=getattr(c,nm)
            s=np.array([f(0.05,z) for z in zz]); 
            for form in (zz,list(zz),zz.astype('f4').astype('f8'),np.repeat(zz,2)[::2],zz.astype('>f8')):
                if not np.array_equal(f(0.05,form),s): note('vec2:'+nm,(kw,type(form)))
            s=np.array([f(z,3.0) for z in zz]); 
            if not np.array_equal(f(zz,3.0),s): note('vec1:'+nm,(kw,))
            s=np.array([f(z,z+1) for z in zz]);
            if not np.array_equal(f(zz,zz+1),s): note('2vec:'+nm,(kw,))
            try: f(zz,zz[:2]); note('mismatch accepted:'+nm,())
            except ValueError: pass
        ii=np.array([1,2]); 
        if not np.array_equal(c.Da(0.0,ii),np.array([c.Da(0.0,1.0),c.Da(0.0,2.0)])): note('int array',(kw,))
        if not np.array_equal(c.Da(0.0,np.array(1.0)),np.array([c.Da(0.0,1.0)])): note('0d',(kw,c.Da(0.0,np.array(1.0))))
        for c2 in (c.copy(),copy.copy(c),copy.deepcopy(c),pickle.loads(pickle.dumps(c))):
            if (c2.H0(),c2.DH(),c2.flat(),c2.omega_m(),c2.omega_l(),c2.omega_k())!=(c.H0(),c.DH(),c.flat(),c.omega_m(),c.omega_l(),c.omega_k()) or c2.Dl(0.1,2.0)!=c.Dl(0.1,2.0) or c2.V(0,1)!=c.V(0,1): note('copy',(kw,))
print('cosmologies',ncos,dict(worst))
for k,v in sorted(problems.items(),key=str): print(v,k,repr(ex[k])[:260])
