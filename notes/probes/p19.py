import numpy as np, warnings, itertools, collections
warnings.simplefilter('ignore')
from esutil import coords
problems=collections.Counter(); ex={}
def note(cat,e): problems[cat]+=1; ex.setdefault(cat,e)
LD=np.longdouble
def vinc(ra1,dec1,ra2,dec2):
    ra1,dec1,ra2,dec2=[np.deg2rad(np.asarray(v,dtype=LD)) for v in (ra1,dec1,ra2,dec2)]
    dl=ra2-ra1
    num=np.hypot(np.cos(dec2)*np.sin(dl), np.cos(dec1)*np.sin(dec2)-np.sin(dec1)*np.cos(dec2)*np.cos(dl))
    den=np.sin(dec1)*np.sin(dec2)+np.cos(dec1)*np.cos(dec2)*np.cos(dl)
    return np.rad2deg(np.arctan2(num,den)).astype('f8')
class R:
    def __init__(s,u,ps): s.u=u; s.ps=ps; s.calls=[]
    def random(s,n): s.calls.append(('random',n)); return np.full(n,s.u)
    def uniform(s,low=0,high=1,size=None): s.calls.append(('uniform',low,high,size)); return np.full(size,low+(high-low)*s.ps)
U=[0,1e-12,.3,.64,.999999,1-2**-53]; PS=[0,.123,.25,.5-1e-9,.5+1e-9,.77,1-2**-53]
C=[(0.,0.),(37.,45.),(359.999999,-45.),(360.,10.),(12.,89.8),(12.,89.95),(0.,90.),(0.,-90.),(200.,-89.8)]
RAD=[1e-6,1e-3,1.,100.,179.9,180.]
n=0
for (ra,dec),rad,dorot,u,ps in itertools.product(C,RAD,(False,True),U,PS):
    n+=1
    r=R(u,ps)
    try: a,b,rr=coords.randcap(2,ra,dec,rad,get_radius=True,dorot=dorot,rng=r)
    except Exception as e: note('exc:'+type(e).__name__,(ra,dec,rad,dorot,u,ps)); continue
    rot = dorot or abs(dec)>=89.9
    if a.size!=2: note('count',())
    if not (np.all(np.isfinite(a)) and np.all(np.isfinite(b))): note('nonfinite',(ra,dec,rad,dorot,u,ps)); continue
    if a.min()<0 or a.max()>360 or np.abs(b).max()>90: note('range',(ra,dec,rad,dorot,u,ps,a,b))
    d=vinc(ra,dec,a,b)
    if d.max()>rad+2e-6: note('outside',(ra,dec,rad,dorot,u,ps,d.max()-rad))
    if np.abs(rr-d).max()>2e-6: note('radius-mismatch:%s'%('rot' if rot else 'norot'),(ra,dec,rad,dorot,u,ps,rr[0],d[0]))
    if np.abs(d-np.sqrt(u)*rad).max()>2e-6: note('sep-vs-sqrt(u)r',(ra,dec,rad,dorot,u,ps,d[0],np.sqrt(u)*rad))
    a2,b2=coords.randcap(2,ra,dec,rad,dorot=dorot,rng=R(u,ps))
    if not (np.array_equal(a,a2) and np.array_equal(b,b2)): note('get_radius-changes-points',())
print('cases',n)
for k,v in sorted(problems.items(),key=str): print(v,k,repr(ex[k])[:250])
# randsphere boxes
class T:
    def __init__(s,t): s.t=t
    def uniform(s,low=0,high=1,size=None): return np.full(size,low+(high-low)*s.t)
for rr_,dr in (([0,360],[-90,90]),([10,35],[-25,15]),([10,10],[5,5]),([0,360],[80,90]),([350,360],[-90,-89])):
    for t in (0,.5,1-2**-53):
        a,b=coords.randsphere(3,ra_range=rr_,dec_range=dr,rng=T(t))
        if a.min()<rr_[0]-1e-9 or a.max()>rr_[1]+1e-9 or b.min()<dr[0]-1e-9 or b.max()>dr[1]+1e-9: print('randsphere out',rr_,dr,t,a,b)
        x,y,z=coords.randsphere(3,ra_range=rr_,dec_range=dr,rng=T(t),system='xyz')
        if np.abs(x*x+y*y+z*z-1).max()>1e-15: print('xyz norm')
print('randsphere ok')
