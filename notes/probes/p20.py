import numpy as np, itertools, time
from esutil import algorithm, numpy_util as nu
t0=time.time(); bad=0; n=0
for L in range(0,8):
    for a in itertools.product(range(3),repeat=L):
        n+=1
        l=list(a); algorithm.quicksort(l)
        if l!=sorted(a): bad+=1; print('qs',a,l)
        k=list(a); v=list(range(L)); algorithm.quicksort_keyvalue(k,v)
        if k!=sorted(a) or sorted(v)!=list(range(L)) or any(a[v[i]]!=k[i] for i in range(L)): bad+=1; print('qskv',a,k,v)
        arr=np.array(a,dtype='i8'); 
        if L: algorithm.quicksort(arr); 
        if L and arr.tolist()!=sorted(a): bad+=1
for L in range(0,8):
    for p in itertools.permutations(range(L)):
        n+=1; l=list(p); algorithm.quicksort(l)
        if l!=list(range(L)): bad+=1
print('sorts',n,bad,time.time()-t0)
for num in range(0,201):
    for nch in range(1,61):
        s=algorithm.isplit(num,nch)
        sizes=(s['end']-s['start'])
        ok=len(s)==nch and s['start'][0]==0 and s['end'][-1]==num and np.all(s['start'][1:]==s['end'][:-1]) and sizes.max()-sizes.min()<=1 and np.all(np.diff(sizes)<=0)
        if not ok: bad+=1; print('isplit',num,nch,s)
for bad_n in (0,-1):
    try: algorithm.isplit(5,bad_n); print('isplit accepted',bad_n)
    except ValueError: pass
for L in range(0,41):
    for nper in range(1,13):
        ch=nu.splitarray(nper,np.arange(L))
        cat=np.concatenate(ch) if ch else np.arange(0)
        ok=cat.tolist()==list(range(L)) and all(len(c)==nper for c in ch[:-1]) and (not ch or 1<=len(ch[-1])<=nper)
        if not ok: bad+=1; print('splitarray',L,nper,ch)
print('done',bad,time.time()-t0)
