import numpy as np, warnings, itertools, collections, time, os
warnings.simplefilter('ignore')
from esutil import sfile, recfile
fn='/dev/shm/p02.rec' if os.path.isdir('/dev/shm') else '/tmp/x/p02.rec'
dt=[('a','<i4'),('x','<f8',(2,)),('s','S3'),('h','<i2')]
def mk(n):
    d=np.zeros(n,dtype=dt); d['a']=np.arange(n)+100; d['x']=np.arange(2*n).reshape(n,2)/4+0.5; d['s']=[('r%d'%i).encode() for i in range(n)]; d['h']=-np.arange(n)-1; return d
cats=collections.Counter(); examples={}
def rec(cat, ex):
    cats[cat]+=1; examples.setdefault(cat, ex)
def same(a,b):
    return a is not None and isinstance(a,np.ndarray) and a.dtype==b.dtype and a.shape==b.shape and a.tobytes()==b.tobytes()
t0=time.time(); nread=0
for delim in (None, ','):
  for n in (1,3,4):
    T=mk(n); sfile.write(fn,T,delim=delim)
    with sfile.SFile(fn) as sf:
        R=sf._robj
        names=[d[0] for d in dt]
        # scalars
        for r in range(-n-2,n+3):
            for style,f in (('kw',lambda: sf.read(rows=r)),('br',lambda: sf[r]),('colbr',lambda: sf['a'][r])):
                nread+=1
                try: got=f(); err=None
                except Exception as e: got=None; err=type(e).__name__
                if -n<=r<n:
                    exp=T[[r % n]] if style!='colbr' else T['a'][[r % n]]
                    if not same(got,exp): rec(('scalar-inrange',delim is None,style),(n,r,got,err))
                else:
                    if err is None: rec(('scalar-oor-accepted',delim is None,style),(n,r,got))
        # lists
        for L in range(1,4):
            for rows in itertools.product(range(0,n+1),repeat=L):
                for cont in (list,tuple,np.array):
                  for style,f in (('kw',lambda: sf.read(rows=cont(rows))),('br',lambda: sf[cont(rows)]),('colbr',lambda: sf[['s','a']][cont(rows)])):
                    nread+=1
                    try: got=f(); err=None
                    except Exception as e: got=None; err=type(e).__name__
                    if max(rows)<n:
                        idx=sorted(set(rows)); exp=T[idx] if style!='colbr' else T[['a','s']][idx]
                        if style=='colbr':
                            exp=np.zeros(len(idx),dtype=[dt[0],dt[2]]); exp['a']=T['a'][idx]; exp['s']=T['s'][idx]
                        if not same(got,exp): rec(('list-inrange',delim is None,style,cont.__name__),(n,rows,got,err))
                    else:
                        if err is None: rec(('list-oor-accepted',delim is None,style, L),(n,rows,got))
        # slices
        B=[None]+list(range(-n-2,n+3))
        for a,b,st in itertools.product(B,B,(None,1,2,3)):
            sl=slice(a,b,st)
            for style,f in (('br',lambda: sf[sl]),('colbr',lambda: sf['a'][sl]),('col2br',lambda: sf[['h','x']][sl])):
                nread+=1
                try: got=f(); err=None
                except Exception as e: got=None; err=type(e).__name__
                if style=='br': exp=T[sl]
                elif style=='colbr': exp=T['a'][sl]
                else:
                    e0=T[sl]; exp=np.zeros(e0.size,dtype=[dt[1],dt[3]]); exp['x']=e0['x']; exp['h']=e0['h']
                if not same(got,exp):
                    neg=(a is not None and a<0) or (b is not None and b<0)
                    oor=(a is not None and abs(a)>n) or (b is not None and b>n)
                    empty=exp.size==0
                    rec(('slice',delim is None,style,'neg' if neg else '', 'oor' if oor else '', 'empty' if empty else '', err),(n,sl,got))
        # columns
        for L in range(1,5):
            for cols in itertools.permutations(names,L):
                for cont in (list,tuple,np.array):
                    for style,f in (('kw',lambda: sf.read(columns=cont(cols))),('fields',lambda: sf.read(fields=cont(cols))),('br',lambda: sf[cont(cols)][:]),('brread',lambda: sf[cont(cols)].read()),('rows',lambda: sf.read(columns=cont(cols),rows=[n-1])),('split',lambda: sf.read(columns=cont(cols),split=True)),('reduce',lambda: sf.read(columns=cont(cols),reduce=True))):
                        nread+=1
                        try: got=f(); err=None
                        except Exception as e: got=None; err=type(e).__name__
                        order=[d for d in dt if d[0] in cols]
                        exp=np.zeros(n,dtype=order)
                        for d in order: exp[d[0]]=T[d[0]]
                        if style=='rows': exp=exp[[n-1]]
                        if style=='split':
                            ok=isinstance(got,tuple) and len(got)==len(order) and all(same(np.ascontiguousarray(g),np.ascontiguousarray(exp[d[0]])) for g,d in zip(got,order))
                        elif style=='reduce' and len(order)==1:
                            ok=got is not None and same(np.ascontiguousarray(got),np.ascontiguousarray(exp[order[0][0]]))
                        else: ok=same(got,exp)
                        if not ok: rec(('cols',delim is None,style,cont.__name__,L),(n,cols,got,err))
        for c in names:
            for style,f in (('kw',lambda: sf.read(columns=c)),('br',lambda: sf[c][:]),('kwrows',lambda: sf.read(columns=c,rows=[0]))):
                nread+=1
                try: got=f(); err=None
                except Exception as e: got=None; err=type(e).__name__
                exp=T[c] if style!='kwrows' else T[c][[0]]
                if not same(np.ascontiguousarray(got) if got is not None else None,np.ascontiguousarray(exp)): rec(('col-scalar',delim is None,style),(n,c,got,err))
print('reads',nread,time.time()-t0)
for k,v in sorted(cats.items(), key=lambda kv: str(kv[0])):
    print(v,k, repr(examples[k])[:200])
