import numpy as np, warnings, time, itertools
warnings.simplefilter('ignore')
from esutil import htm, coords
def vinc(ra1,dec1,ra2,dec2):
    ra1,dec1,ra2,dec2=[np.deg2rad(np.asarray(v,dtype=np.longdouble)) for v in (ra1,dec1,ra2,dec2)]
    dl=ra2-ra1
    num=np.hypot(np.cos(dec2)*np.sin(dl), np.cos(dec1)*np.sin(dec2)-np.sin(dec1)*np.cos(dec2)*np.cos(dl))
    den=np.sin(dec1)*np.sin(dec2)+np.cos(dec1)*np.cos(dec2)*np.cos(dl)
    return np.rad2deg(np.arctan2(num,den)).astype('f8')
def offset(ra,dec,sep,pa):
    # exact destination point given start, distance, bearing (deg)
    ra,dec,sep,pa=[np.deg2rad(np.asarray(v,dtype=np.longdouble)) for v in (ra,dec,sep,pa)]
    d2=np.arcsin(np.clip(np.sin(dec)*np.cos(sep)+np.cos(dec)*np.sin(sep)*np.cos(pa),-1,1))
    r2=ra+np.arctan2(np.sin(pa)*np.sin(sep)*np.cos(dec), np.cos(sep)-np.sin(dec)*np.sin(d2))
    return (np.rad2deg(r2)%360).astype('f8'), np.rad2deg(d2).astype('f8')
centres=[(10.,20.),(0.,0.),(359.9999999,-45.),(123.,89.9999),(200.,-90.),(90.,0.),(45.,35.26),(180.,60.),(0.,90.),(270.,0.),(45.,0.),(0.,45.)]
t0=time.time(); bad=0; n=0
for depth in (1,3,6,9,12):
    h=htm.HTM(depth)
    tri=90./2**depth
    for (ra,dec) in centres:
        for rad in (tri*0.01, tri*0.5, tri*3, min(tri*20,179.)):
            inc=set(h.intersect(ra,dec,rad).tolist()); full=set(h.intersect(ra,dec,rad,inclusive=False).tolist())
            assert full<=inc
            cid=int(h.lookup_id(ra,dec)[0])
            if cid not in inc: bad+=1; print('centre not in list',depth,ra,dec,rad)
            f=np.concatenate([np.linspace(0,0.999999,25), np.linspace(1.000001,1.6,15)])
            pa=np.arange(0,360,7.5)
            F,PA=np.meshgrid(f,pa); F=F.ravel(); PA=PA.ravel()
            r2,d2=offset(ra,dec,F*rad,PA)
            true=vinc(ra,dec,r2,d2)
            ids=h.lookup_id(r2,d2)
            n+=ids.size
            for i in range(ids.size):
                if true[i] <= rad*(1-1e-9)-1e-12 and int(ids[i]) not in inc:
                    bad+=1; print('inside pt not covered',depth,ra,dec,rad,F[i],PA[i],true[i])
                if int(ids[i]) in full and true[i] > rad*(1+1e-9)+1e-12:
                    bad+=1; print('full tri has outside pt',depth,ra,dec,rad,F[i],PA[i],true[i])
print('bad',bad,'probes',n,time.time()-t0)
