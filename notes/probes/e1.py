import numpy as np, os, sys, traceback
from esutil import sfile, recfile
import esutil
fn='/tmp/x/t.rec'
def tryit(label, f):
    try:
        r=f()
        print(label, '->', repr(r)[:300])
    except BaseException as e:
        print(label, 'EXC', type(e).__name__, str(e)[:200])

dt=[('a','<i4'),('END','>f8'),('s','S3')]
d=np.zeros(4,dtype=dt); d['a']=np.arange(4); d['END']=np.arange(4)*1.5; d['s']=[b'a',b'bb',b'ccc',b'']
def w1():
    sfile.write(fn,d)
    return sfile.read(fn, header=True)
tryit('END field name', w1)
dt=[('a','<i4'),('b','>f8'),('s','S3')]
d=np.zeros(4,dtype=dt); d['a']=np.arange(4); d['b']=np.arange(4)*1.5; d['s']=[b'a',b'bb',b'ccc',b'']
def w2():
    sfile.write(fn,d,header={'x':'END','SIZE':3, 'k':"it's \"q\"\nnew"})
    return sfile.read(fn, header=True)
tryit('END hdr value', w2)
def w3():
    sfile.write(fn,d,header={'x':'E','SIZE':3, 'k':"it's \"q\"\nnew", 'long':'word '*40, 'b':b'\x00\xff', 'n':None, 't':(1,2,[3,{'z':1.5}])})
    return sfile.read(fn, header=True)
tryit('hdr value', w3)
print(open(fn,'rb').read()[:600])
# w+ mode
def w4():
    with sfile.SFile(fn,'w+') as sf:
        sf.write(d)
        return sf[0]
tryit('w+', w4)
# reduce
sfile.write(fn,d)
tryit('reduce multi', lambda: sfile.read(fn, reduce=True))
tryit('reduce one', lambda: sfile.read(fn, columns=['a'], reduce=True))
tryit('split', lambda: sfile.read(fn, split=True))
with sfile.SFile(fn) as sf:
    for sl in [slice(0,-1), slice(-2,None), slice(-10,2), slice(7,None), slice(2,1), slice(None,None,2), slice(1,100,3), slice(3,2)]:
        tryit('bin %s'%sl, lambda: sf[sl]['a'])
        tryit('bin col %s'%sl, lambda: sf['a'][sl])
    tryit('rows [100]', lambda: sf.read(rows=[100])['a'])
    tryit('rows [4]', lambda: sf.read(rows=[4])['a'])
    tryit('rows [0,4]', lambda: sf.read(rows=[0,4])['a'])
    tryit('rows [-1]', lambda: sf.read(rows=[-1])['a'])
    tryit('rows [-1,0]', lambda: sf.read(rows=[-1,0])['a'])
    tryit('rows -1', lambda: sf.read(rows=-1)['a'])
    tryit('rows [3,1,1]', lambda: sf.read(rows=[3,1,1])['a'])
    tryit('sf[2]', lambda: sf[2])
    tryit('sf[-1]', lambda: sf[-1])
    tryit('sf[4]', lambda: sf[4])
    tryit('cols [s,a]', lambda: sf.read(columns=['s','a']))
    tryit('sf[[s,a]][[2,0]]', lambda: sf[['s','a']][[2,0]])
    tryit('cols (s,a) tuple', lambda: sf.read(columns=('s','a')).dtype)
    tryit('cols np array', lambda: sf.read(columns=np.array(['s','a'])).dtype)
    tryit('col a', lambda: sf.read(columns='a'))
    tryit('col missing', lambda: sf.read(columns='zz'))
    tryit('rows empty', lambda: sf.read(rows=[]))
sfile.write(fn,d,delim=',')
print(open(fn).read())
with sfile.SFile(fn) as sf:
    for sl in [slice(0,-1), slice(-2,None), slice(-10,2), slice(7,None), slice(2,1), slice(None,None,2), slice(1,100,3)]:
        tryit('txt %s'%sl, lambda: sf[sl]['a'])
        tryit('txt col %s'%sl, lambda: sf['a'][sl])
    tryit('txt all', lambda: sf.read())
