"""C13 - HTM ids are hierarchical, intersection lists cover circles, pair counts
equal a brute-force count (E1)."""
import os
import pickle

import numpy as np

from mc.oracle.wcsref import sep as ld_sep

RULE = (
    "ids: every position of P (poles incl. all ra, octant boundaries ra in {0,90,180,270,360} / dec 0 and their "
    "1e-13..1e-7 degree neighbours, seam pairs, all vertices and centres of the level<=2 triangles, exact "
    "duplicates, 3 seeded generic points, destination points 1e-7..1 degree away in 3 bearings) x depth 0..20 "
    "(thorough ..24) x call form {python scalars, numpy scalars, 1-element array, middle slot of a 3-array, "
    "strided view, byte-swapped array, list, 2-d array, float32-exact values}: range, parent/child, all forms equal, and "
    "the position lies in the triangle the id names (own long-double subdivision).  "
    "intersect: centre (12) x depth x radius {.01,.5,3,20 x triangle width; 1e-4; 90 (shallow depths)}: "
    "inclusive and full lists against (A) a polar grid of 42 radii x 48 bearings of probe positions out to 1.6 r "
    "plus all positions of P, each looked up with lookup_id, and (B) an own geometric enumeration of every "
    "triangle of that depth near the circle (7 sample points per triangle).  "
    "bincount: depth x (rmin,rmax,nbin) x scale {None, scalar, 1-element array, per-point 20..40} x "
    "(set1,set2) pairs of named subsets of a 150-point set (incl. pairs at separation 0, just below rmin, above "
    "rmax, poles, seam, duplicates, a meridian family placed 1e-6 relative on either side of every bin edge) x "
    "memory form; every case runs the internal route and 4 supplied routes (htmid2 only; +htmrev2 from "
    "esutil.stat.histogram; +minid/maxid; own numpy reverse indices) and compares all of them with each other "
    "and with the brute-force count.  histories: all sequences of <= 3 (4) calls of lookup_id / intersect / bincount "
    "on ONE HTM object, last result compared with a fresh object.  non-trivial = position on a triangle boundary / list with more than one "
    "triangle / point sets with pairs both inside and outside [rmin,rmax)."
)
ASSUMPTIONS = [
    "separations are computed in numpy.longdouble with the atan2 (Vincenty) form from the float64 values that are actually passed to esutil",
    "triangle geometry reference: octahedron roots S0..N3 = ids 8..15 with the published HTM vertex order, child k of a triangle = id*4+k, midpoints normalised, evaluated in long double; a position 'lies in' its triangle if it is not further outside any edge plane than 2e-15/|v_a x v_b| + 1e-15 rad (the library's documented boundary epsilon of 1e-15 on the triple product, doubled)",
    "intersection margins (not in the statement, from DESIGN.md): a probe with sep <= r(1-1e-9) must have its id in the inclusive list; a triangle in the full list may only contain sample points with sep <= r(1+1e-9)",
    "geometric oracle B uses 7 sample points per triangle (3 vertices, 3 edge midpoints, centroid): a triangle with a sample point inside the circle by the margin has interior positions inside the circle and must therefore be listed; triangles that meet the circle only between sample points are decided by the probe oracle A only",
    "sanity bound beyond the literal statement (vacuity guard): every listed triangle must at least have its bounding circle, enlarged to twice its radius, meet the search circle (a list of all triangles would satisfy coverage vacuously; the library lists triangles up to 0.56 bounding radii outside a circle of radius >= 90 degrees, which the statement allows), and the lists contain no duplicates and only ids of the object's depth",
    "bincount: bin edges rmin*(rmax/rmin)^(i/nbin); returned edges compared to 1e-12 relative; pairs within 1e-9 relative of any edge (incl. rmin, rmax) are free, every other pair must be counted exactly once in its bin; only configurations with rmax/scale <= pi rad (rmax <= 180 deg unscaled) are on the lattice",
    "bincount depth is bounded by the size of the reverse-index table (8*4^depth entries when the second set covers the sphere): depth <= 8 for sphere-wide sets, deeper depths only with a second set localised within about a degree",
    "the lattice parts construct a fresh HTM object for every call; independence of earlier calls on one object is covered by a separate history part (all sequences of <= 3 (thorough 4) calls out of 7, each result compared with the same call on a fresh object)",
    "radius-90 circles (hemispheres) are enumerated only for depth <= 6 (thorough 8) because the lists grow as 4^depth",
]

LD = np.longdouble
PI = np.arctan(LD(1)) * 4
D2R = PI / LD(180)
EPS = 1e-9          # relative margin of the statement (bin edges) and of DESIGN.md (circle radius)

# ----------------------------------------------------------------------------
# reference geometry (long double, independent of esutil)

_OCT = np.array([[0, 0, 1], [1, 0, 0], [0, 1, 0], [-1, 0, 0], [0, -1, 0], [0, 0, -1]], dtype=LD)
_ROOT = {8: (1, 5, 2), 9: (2, 5, 3), 10: (3, 5, 4), 11: (4, 5, 1),
         12: (1, 0, 4), 13: (4, 0, 3), 14: (3, 0, 2), 15: (2, 0, 1)}
_ROOTTAB = np.array([[_OCT[j] for j in _ROOT[r]] for r in range(8, 16)], dtype=LD)   # (8,3,3)


def unitvec(ra, dec):
    ra = np.asarray(ra, dtype=LD) * D2R
    dec = np.asarray(dec, dtype=LD) * D2R
    cd = np.cos(dec)
    return np.stack([np.cos(ra) * cd, np.sin(ra) * cd, np.sin(dec)], axis=-1)


def _dot(a, b):
    return (a * b).sum(-1)


def _cross(a, b):
    return np.stack([a[..., 1] * b[..., 2] - a[..., 2] * b[..., 1],
                     a[..., 2] * b[..., 0] - a[..., 0] * b[..., 2],
                     a[..., 0] * b[..., 1] - a[..., 1] * b[..., 0]], axis=-1)


def _norm(v):
    return v / np.sqrt(_dot(v, v))[..., None]


def vsep(a, b):
    """angle in radians (long double) between unit vectors"""
    c = _cross(a, b)
    return np.arctan2(np.sqrt(_dot(c, c)), _dot(a, b))


def _children(v0, v1, v2):
    w0 = _norm(v1 + v2)
    w1 = _norm(v0 + v2)
    w2 = _norm(v1 + v0)
    return ((v0, w2, w1), (v1, w0, w2), (v2, w1, w0), (w0, w1, w2))


def triangles(ids, depth):
    """vertices (v0,v1,v2), each (N,3) long double, of the depth-`depth` triangles `ids`"""
    ids = np.asarray(ids, dtype="i8")
    t = _ROOTTAB[(ids >> (2 * depth)) - 8]
    v0, v1, v2 = t[:, 0], t[:, 1], t[:, 2]
    for lev in range(1, depth + 1):
        k = ((ids >> (2 * (depth - lev))) & 3)[:, None]
        ch = _children(v0, v1, v2)
        v0, v1, v2 = [np.where(k == 0, ch[0][j], np.where(k == 1, ch[1][j], np.where(k == 2, ch[2][j], ch[3][j])))
                      for j in range(3)]
    return v0, v1, v2


def outside(p, v0, v1, v2):
    """(how far p is outside the triangle [rad, <=0 inside], allowed slack) per row"""
    worst = None
    slack = None
    for a, b in ((v0, v1), (v1, v2), (v2, v0)):
        c = _cross(a, b)
        n = np.sqrt(_dot(c, c))
        o = -_dot(c, p) / n
        s = 2e-15 / n + 1e-15
        if worst is None:
            worst, slack = o, s
        else:
            slack = np.where(o > worst, s, slack)
            worst = np.maximum(o, worst)
    return worst, slack


def samples7(v0, v1, v2):
    return [v0, v1, v2, _norm(v0 + v1), _norm(v1 + v2), _norm(v2 + v0), _norm(v0 + v1 + v2)]


def near_triangles(cen, r, depth, factor=1.01):
    """ids and vertices of every depth-`depth` triangle whose bounding circle
    (about the centroid, through the farthest vertex, +1%) meets the circle of
    radius r [rad] about the unit vector cen: a superset of the intersecting ones
    (factor > 1.01: the bounding circle enlarged accordingly)"""
    ids = np.arange(8, 16, dtype="i8")
    v0, v1, v2 = _ROOTTAB[:, 0], _ROOTTAB[:, 1], _ROOTTAB[:, 2]
    for lev in range(0, depth + 1):
        if lev > 0:
            ch = _children(v0, v1, v2)
            ids = np.concatenate([ids * 4 + k for k in range(4)])
            v0, v1, v2 = [np.concatenate([ch[k][j] for k in range(4)]) for j in range(3)]
        c = _norm(v0 + v1 + v2)
        rad = np.maximum(np.maximum(vsep(c, v0), vsep(c, v1)), vsep(c, v2))
        keep = vsep(c, cen[None, :]) <= r + rad * LD(factor) + LD(1e-12)
        ids, v0, v1, v2 = ids[keep], v0[keep], v1[keep], v2[keep]
    return ids, v0, v1, v2


def radec(v):
    """unit vector(s) (long double) -> float64 (ra, dec) in degrees, ra in [0,360)"""
    v = np.asarray(v, dtype=LD)
    ra = ((np.arctan2(v[..., 1], v[..., 0]) / D2R) % 360).astype("f8") % 360.0
    dec = (np.arctan2(v[..., 2], np.hypot(v[..., 0], v[..., 1])) / D2R).astype("f8")
    return ra, dec


def edge_frame(level, tid, j, t):
    """point M on edge j (vertex j -> vertex j+1) of the level-`level` triangle `tid`, a fraction t along it,
    and the unit normal n of the edge's great circle pointing INTO that triangle"""
    vs = triangles([tid], level)
    a, b = vs[j][0], vs[(j + 1) % 3][0]
    m = _norm((1 - LD(t)) * a + LD(t) * b)
    n = _norm(_cross(a, b))
    return m, n


def move(m, n, ang):
    """from the edge point m go `ang` radians perpendicular to the edge (positive = into the triangle)"""
    ang = np.asarray(ang, dtype=LD)
    return np.cos(ang)[..., None] * m + np.sin(ang)[..., None] * n


def offset(ra, dec, dist, pa):
    """destination point(s): from (ra,dec) go `dist` degrees along bearing `pa` (east of north); float64 results"""
    ra, dec, dist, pa = [np.asarray(v, dtype=LD) * D2R for v in (ra, dec, dist, pa)]
    # in the frame whose x axis points to longitude ra: p = (cos dec, 0, sin dec), north n = (-sin dec, 0, cos dec),
    # east e = (0, 1, 0); destination = cos(dist) p + sin(dist) (cos(pa) n + sin(pa) e)
    x = np.cos(dist) * np.cos(dec) - np.sin(dist) * np.cos(pa) * np.sin(dec)
    y = np.sin(dist) * np.sin(pa)
    z = np.cos(dist) * np.sin(dec) + np.sin(dist) * np.cos(pa) * np.cos(dec)
    d2 = np.arctan2(z, np.hypot(x, y))
    r2 = ra + np.arctan2(y, x)
    return ((r2 / D2R) % 360).astype("f8") % 360.0, (d2 / D2R).astype("f8")


# ----------------------------------------------------------------------------
# alphabets

SQ = 35.264389682754654       # latitude of the centre of the N3 octant (45, asin(1/sqrt 3))

BASE = [(0.0, 0.0), (0.0, 90.0), (123.0, -90.0), (359.9999999, 10.0), (1e-7, 10.0), (90.0, 0.0), (180.0, 0.0),
        (270.0, 0.0), (45.0, SQ), (45.0, 0.0), (0.0, 45.0), (10.0, 20.0), (10.0, 20.0), (200.0, -89.9999),
        (20.0, 89.9999), (90.0, 45.0), (135.0, 0.0), (225.0, -45.0), (315.0, 0.0), (180.0, -45.0)]


def generic_points(seed, n=3):
    rs = np.random.RandomState(1300 + seed)
    ra = np.round(rs.uniform(0, 360, n), 6)
    dec = np.round(np.rad2deg(np.arcsin(rs.uniform(-1, 1, n))), 6)
    return [(float(a), float(d)) for a, d in zip(ra, dec)]


def positions(seed):
    """the position set P of the ids part (list of (ra, dec) float pairs, duplicates removed but order kept)"""
    pts = list(BASE) + generic_points(seed)
    anchors = list(pts)
    for (ra, dec) in anchors:
        for dist in (1e-7, 1e-4, 0.01, 1.0):
            for pa in (0.0, 90.0, 200.0):
                r, d = offset(ra, dec, dist, pa)
                pts.append((float(r), float(d)))
    # poles at every ra step 45, octant boundaries and near neighbours
    for ra in range(0, 361, 45):
        pts.append((float(ra), 90.0))
        pts.append((float(ra), -90.0))
    for ra in (0.0, 90.0, 180.0, 270.0, 360.0):
        for dec in (0.0, 1e-13, -1e-13, 1e-9, -1e-9, 30.0, -60.0, 89.9999999, -89.9999999):
            pts.append((ra, dec))
        for dra in (1e-13, -1e-13, 1e-9, -1e-7):
            for dec in (0.0, 33.0, -1e-9):
                pts.append((ra + dra, dec))
    for ra in (1e-9, 33.0, 45.0, 89.9999999, 90.0000001, 200.0, 359.9999999, 359.99999999999994):
        for dec in (0.0, 1e-13, -1e-9):
            pts.append((ra, dec))
    # vertices, edge midpoints and centroids of every triangle of level <= 2 (rounded to float64 ra/dec)
    ids = np.arange(8, 16, dtype="i8")
    for lev in range(0, 3):
        v0, v1, v2 = triangles(ids, lev)
        for s in samples7(v0, v1, v2):
            ra = (np.arctan2(s[:, 1], s[:, 0]) / D2R) % 360
            dec = np.arctan2(s[:, 2], np.hypot(s[:, 0], s[:, 1])) / D2R
            for a, d in zip(ra.astype("f8") % 360.0, dec.astype("f8")):
                pts.append((float(a) + 0.0, float(d) + 0.0))
        ids = np.concatenate([ids * 4 + k for k in range(4)])
    # vertices and edge midpoints of the level 3..20 triangles around three anchors (own descent: the child
    # whose interior contains the anchor), i.e. positions on boundaries that only exist at deeper levels
    for anchor in [(10.0, 20.0), (200.0, -89.9999)] + generic_points(seed, 1):
        a = unitvec(anchor[0], anchor[1])[None, :]
        tid = np.arange(8, 16, dtype="i8")
        v0, v1, v2 = triangles(tid, 0)
        o, _ = outside(a, v0, v1, v2)
        j = int(np.argmin(o))
        v0, v1, v2 = v0[j:j + 1], v1[j:j + 1], v2[j:j + 1]
        for lev in range(1, 21):
            ch = _children(v0, v1, v2)
            oo = [float(outside(a, *c)[0][0]) for c in ch]
            v0, v1, v2 = ch[int(np.argmin(oo))]
            if lev >= 3:
                for sv in samples7(v0, v1, v2)[:6]:
                    ra = (np.arctan2(sv[:, 1], sv[:, 0]) / D2R) % 360
                    dec = np.arctan2(sv[:, 2], np.hypot(sv[:, 0], sv[:, 1])) / D2R
                    pts.append((float(ra.astype("f8")[0] % 360.0), float(dec.astype("f8")[0])))
    seen = set()
    out = []
    for p in pts:
        k = (repr(p[0]), repr(p[1]))
        if k not in seen:
            seen.add(k)
            out.append(p)
    return out


_PCACHE = {}


def positions_cached(seed):
    if seed not in _PCACHE:
        _PCACHE[seed] = positions(seed)
    return _PCACHE[seed]


# ---- bincount point set -----------------------------------------------------

BBASE = [(10.0, 20.0), (0.0, 0.0), (0.0, 90.0), (359.9999999, 10.0), (90.0, 0.0), (45.0, SQ), (200.0, -89.99),
         (123.0, -90.0), (1e-7, 10.0), (10.0, 20.0), (180.0, 0.0), (270.0, -45.0)]
BDIST = (0.003, 0.05, 0.2, 0.7, 3.0, 12.0)
BPA = (10.0, 130.0, 250.0)


def bpoints(seed):
    """-> (ra, dec, tags): the 150-odd point set of the pair-count part"""
    pts = []
    tags = []
    base = list(BBASE) + generic_points(seed, 2)
    for p in base:
        pts.append(p)
        tags.append("base")
    for (ra, dec) in base[:7]:
        for dist in BDIST:
            for pa in BPA:
                r, d = offset(ra, dec, dist, pa)
                pts.append((float(r), float(d)))
                tags.append("dest")
    # a far-away clump (antipodal region of the first anchor) and an exact antipode
    pts += [(190.0, -20.0), (190.0, -20.0), (190.05, -20.0), (190.0, -19.3)]
    tags += ["far"] * 4
    return np.array([p[0] for p in pts]), np.array([p[1] for p in pts]), tags


def bselect(name, ra, dec, tags):
    n = ra.size
    idx = np.arange(n)
    t = np.array(tags)
    if name == "all":
        return idx
    if name == "base":
        return idx[t == "base"]
    if name == "dest":
        return idx[t == "dest"]
    if name == "one":
        return idx[:1]
    if name == "dup":
        return np.array([0, 9, 0])          # (10,20) three times, two distinct storage slots
    if name == "runs":
        # the same position several times IN A ROW in the first list (with a per-point scale each of them has its own
        # search circle): (10,20) x3, its duplicate slot x2, another point x2, (10,20) again
        return np.array([0, 0, 0, 9, 9, 5, 5, 0])
    if name == "even":
        return idx[::2]
    if name == "odd":
        return idx[1::2]
    if name == "polar":
        return idx[np.abs(dec) > 80]
    if name == "seam":
        return idx[(ra < 15) | (ra > 345)]
    if name == "north":
        return idx[dec >= 0]
    if name == "south":
        return idx[dec < 0]
    if name == "local":
        # everything within 1.2 degrees of the first anchor (10,20)
        return idx[ld_sep(ra, dec, 10.0, 20.0) < 1.2]
    if name == "rev":
        return idx[::-1]
    raise ValueError(name)


def edge_family(bins, scale0):
    """anchor (10,20) plus points on its meridian whose (scaled) separation is
    e*(1 +- 1e-6) [constrained] and e*(1 +- 1e-11) [free] for every bin edge e,
    plus 0.3 and 3 times rmin/rmax"""
    rmin, rmax, nbin = bins
    e = [LD(rmin) * (LD(rmax) / LD(rmin)) ** (LD(i) / nbin) for i in range(nbin + 1)]
    seps = []
    for x in e:
        for f in (1 - 1e-6, 1 + 1e-6, 1 - 1e-11, 1 + 1e-11):
            seps.append(x * LD(f))
    seps += [e[0] * LD(0.3), e[-1] * LD(3), e[0] * LD(0.97), (e[0] * e[1]) ** LD(0.5)]
    out = [(10.0, 20.0)]
    for s in seps:
        deg = s if scale0 is None else s / LD(scale0) / D2R
        if deg < 60:
            out.append((10.0, float(LD(20.0) + deg)))
    return np.array([p[0] for p in out]), np.array([p[1] for p in out])


NEAR_ANCHORS = ((10.0, 20.0), (100.0, -35.0), (250.0, 5.0))
NEAR_F = (1e-8, 3e-8, 1e-7, 3e-7, 1e-6, 3e-6, 1e-5, 3e-5, 1e-4, 3e-4, 1e-3, 3e-3, 1e-2)


def near_edge_family(bins, scales):
    """one first-set anchor per entry of ``scales`` (a per-point scale array); for EVERY anchor i, every bin edge e and
    every relative offset f = +-NEAR_F a second-set point on the anchor's meridian at the scaled separation e*(1+f)
    MEASURED WITH THAT ANCHOR'S OWN scale[i] -> which bin such a pair belongs to is decided by scale[i] alone; a
    scale taken from another point (or any summary of the array) that differs by more than |f| moves it across e"""
    rmin, rmax, nbin = bins
    e = [LD(rmin) * (LD(rmax) / LD(rmin)) ** (LD(k) / nbin) for k in range(nbin + 1)]
    p1 = [NEAR_ANCHORS[i] for i in range(len(scales))]
    p2 = []
    for (ra, dec), s in zip(p1, scales):
        for x in e:
            for f in NEAR_F:
                for sg in (-1, 1):
                    deg = x * (1 + LD(sg * f)) / LD(s) / D2R
                    p2.append((ra, float(LD(dec) + deg)))
    return (np.array([p[0] for p in p1]), np.array([p[1] for p in p1]),
            np.array([p[0] for p in p2]), np.array([p[1] for p in p2]))


def as_form(a, form):
    a = np.asarray(a)
    if form == "native":
        return a.copy()
    if form == "swapped":
        return a.astype(a.dtype.newbyteorder("S"))
    if form == "strided":
        big = np.full(a.size * 3 + 1, -77, dtype=a.dtype)
        big[1::3] = a
        return big[1::3]
    if form == "list":
        return a.tolist()
    if form == "2d":
        # same elements as a 2-d array (the entry points return 1-d results for arr.size elements)
        return a.reshape(2, -1).copy() if (a.ndim == 1 and a.size % 2 == 0 and a.size >= 2) else a.reshape(1, -1).copy()
    if form in ("2d-F", "2d-alt"):
        # the same 2-d array in Fortran (column-major) MEMORY order: its elements in logical order are unchanged, a
        # flattening that follows the memory is not.  "2d-alt": every other argument column-major, the rest row-major
        b = as_form(a, "2d")
        _ALT[0] += 1
        return np.asfortranarray(b) if (form == "2d-F" or _ALT[0] % 2 == 1) else b
    raise ValueError(form)


_ALT = [0]


def in_child(fn):
    """run fn() in a forked child -> ("ok", value) | ("exc", text) | ("died", text); keeps a crash of the
    interpreter (D23: SIGSEGV) a plain, replayable violation"""
    r, w = os.pipe()
    pid = os.fork()
    if pid == 0:
        try:
            os.close(r)
            try:
                out = ("ok", fn())
            except Exception as e:
                out = ("exc", "%s: %s" % (type(e).__name__, e))
            with os.fdopen(w, "wb") as f:
                pickle.dump(out, f, protocol=4)
        finally:
            os._exit(0)
    os.close(w)
    with os.fdopen(r, "rb") as f:
        data = f.read()
    _, status = os.waitpid(pid, 0)
    if os.WIFSIGNALED(status):
        return ("died", "the interpreter died with signal %d" % os.WTERMSIG(status))
    if not data:
        return ("died", "the child process returned nothing (exit status %d)" % os.WEXITSTATUS(status))
    return pickle.loads(data)


def reverse_indices(ids, minid, maxid):
    """IDL-style reverse indices of (ids - minid) with unit bins, plain numpy"""
    k = np.asarray(ids, dtype="i8") - int(minid)
    nb = int(maxid) - int(minid) + 1
    order = np.argsort(k, kind="stable")
    cnt = np.bincount(k, minlength=nb)
    rev = np.empty(nb + 1 + k.size, dtype="i8")
    rev[0] = nb + 1
    rev[1:nb + 1] = nb + 1 + np.cumsum(cnt)
    rev[nb + 1:] = order
    return rev


def brute(R, bins):
    """per-bin (lo, hi) admissible counts, total (lo, hi), reference edges, composition flags"""
    rmin, rmax, nbin = bins
    R = np.asarray(R, dtype=LD).ravel()
    e = np.array([LD(rmin) * (LD(rmax) / LD(rmin)) ** (LD(i) / nbin) for i in range(nbin + 1)], dtype=LD)
    lo = np.zeros(nbin, dtype="i8")
    hi = np.zeros(nbin, dtype="i8")
    for i in range(nbin):
        a, b = e[i], e[i + 1]
        lo[i] = ((R >= a * (1 + LD(EPS))) & (R < b * (1 - LD(EPS)))).sum()
        hi[i] = ((R >= a * (1 - LD(EPS))) & (R < b * (1 + LD(EPS)))).sum()
    tlo = int(((R >= e[0] * (1 + LD(EPS))) & (R < e[-1] * (1 - LD(EPS)))).sum())
    thi = int(((R >= e[0] * (1 - LD(EPS))) & (R < e[-1] * (1 + LD(EPS)))).sum())
    zone = e[0] * (e[0] / e[1])
    flags = []
    if (R == 0).any():
        flags.append("zero")
    if ((R > zone) & (R < e[0] * (1 - LD(EPS)))).any():
        flags.append("just-below")
    if ((R > 0) & (R <= zone)).any():
        flags.append("far-below")
    if tlo > 0:
        flags.append("in")
    if (R >= e[-1] * (1 + LD(EPS))).any():
        flags.append("above")
    free = np.zeros(R.shape, dtype=bool)
    for x in e:
        free |= (np.abs(R - x) <= x * LD(EPS))
    if free.any():
        flags.append("free")
    return lo, hi, tlo, thi, e.astype("f8"), flags


# ----------------------------------------------------------------------------


def main(ctx):
    from esutil import htm
    from esutil import stat

    seed = ctx.seed

    # ================================================================== ids
    DMAX = ctx.pick(20, 24)
    FORMS = ["pyfloat", "npscalar", "array1", "array3", "strided", "swapped", "list", "2d"]

    def lookup_form(h, ra, dec, form):
        if form == "pyfloat":
            r = h.lookup_id(float(ra), float(dec))
        elif form == "npscalar":
            r = h.lookup_id(np.float64(ra), np.float64(dec))
        elif form == "array1":
            r = h.lookup_id(np.array([ra]), np.array([dec]))
        elif form == "list":
            r = h.lookup_id([ra], [dec])
        elif form == "2d":
            # a 2-d array means its flattened elements (the result is 1-d with arr.size entries)
            r = h.lookup_id(np.array([[10.0, ra], [200.0, 33.0]]), np.array([[20.0, dec], [-30.0, 44.0]]))
            if r.shape != (4,):
                return "shape %r" % (r.shape,)
            r = r[1:2]
        else:
            a = np.array([10.0, ra, 200.0])
            d = np.array([20.0, dec, -30.0])
            if form == "strided":
                a, d = as_form(a, "strided"), as_form(d, "strided")
            elif form == "swapped":
                a, d = as_form(a, "swapped"), as_form(d, "swapped")
            r = h.lookup_id(a, d)
            if r.shape != (3,):
                return "shape %r" % (r.shape,)
            r = r[1:2]
        r = np.asarray(r)
        if r.dtype != np.dtype("i8") or r.shape != (1,):
            return "dtype %s shape %r" % (r.dtype, r.shape)
        return int(r[0])

    def one_id(case, rec):
        ra, dec, dmax = case
        p = unitvec(ra, dec)
        calls = 0
        prev = None
        edge_level = None
        for depth in range(0, dmax + 1):
            h = htm.HTM(depth)
            got = {}
            for form in FORMS:
                try:
                    got[form] = lookup_form(h, ra, dec, form)
                except Exception as e:
                    return rec.fail(case, "lookup_id raised %s: %s (depth %d, form %s)"
                                    % (type(e).__name__, e, depth, form))
                calls += 1
            i = got["pyfloat"]
            if not isinstance(i, int):
                return rec.fail(case, "lookup_id returned %s at depth %d" % (i, depth))
            bad = [f for f in FORMS if got[f] != i]
            if bad:
                return rec.fail(case, "scalar and array calls differ at depth %d: %r" % (depth, got))
            if not (8 * 4 ** depth <= i < 16 * 4 ** depth):
                return rec.fail(case, "id %d at depth %d is outside [8*4^d, 16*4^d)" % (i, depth))
            if prev is not None and (i >> 2) != prev:
                return rec.fail(case, "id %d at depth %d is not a child of id %d at depth %d"
                                % (i, depth, prev, depth - 1))
            prev = i
            v0, v1, v2 = triangles([i], depth)
            o, slack = outside(p[None, :], v0, v1, v2)
            if float(o[0]) > float(slack[0]):
                return rec.fail(case, "position is %.3g rad outside the triangle of id %d at depth %d (allowed %.3g)"
                                % (float(o[0]), i, depth, float(slack[0])))
            if edge_level is None and float(o[0]) > -1e-12:
                edge_level = depth
        if abs(dec) == 90.0:
            oc = "pole"
        elif edge_level is not None and edge_level <= 2:
            oc = "on-boundary-level<=2"
        elif edge_level is not None:
            oc = "on-boundary-deeper"
        else:
            oc = "interior"
        if ra >= 359.999 or ra <= 0.001:
            oc += "+seam"
        rec.ok(case, outcome=oc, nontrivial=(oc != "interior"), calls=calls)

    P = positions_cached(seed)
    units = [(ra, dec, DMAX) for (ra, dec) in P]
    # float32-exact values reach the same code after astype('f8'): a few positions given as float32 arrays
    ctx.lattice("ids", units, one_id,
                bounds=dict(positions=len(units), depth_max=DMAX, forms=FORMS, seed=seed))

    # ---- positions ON the edges of every triangle of levels 3..5 (6): the id chain across ALL depths
    # A mesh of depth d stores some levels and computes the deeper ones on the fly; which levels are stored may depend on
    # d.  Two ways of computing the same edge mid-point that differ in the last place disagree only about positions within
    # an ulp of that edge - so every edge of the coarse levels is populated with points (mid-point, thirds, and their
    # float64 neighbours) and the parent/child chain is checked between every pair of consecutive depths, whole arrays
    # at a time.
    def one_edge_chain(case, rec):
        lev, part, nparts = case
        ids = np.arange(8 * 4 ** lev, 16 * 4 ** lev, dtype="i8")[part::nparts]
        v0, v1, v2 = triangles(ids, lev)
        pts = []
        for a, b in ((v0, v1), (v1, v2), (v2, v0)):
            for t in (0.5, 1.0 / 3.0, 0.75):
                m = a * (1 - t) + b * t
                pts.append(m / np.sqrt((m * m).sum(axis=1))[:, None])
        P_ = np.concatenate(pts)
        ra = ((np.arctan2(P_[:, 1], P_[:, 0]) / D2R) % 360).astype("f8") % 360.0
        dec = (np.arctan2(P_[:, 2], np.hypot(P_[:, 0], P_[:, 1])) / D2R).astype("f8")
        ra = np.concatenate([ra, np.nextafter(ra, 400.0) % 360.0, ra])
        dec = np.concatenate([dec, dec, np.clip(np.nextafter(dec, -100.0), -90.0, 90.0)])
        prev = None
        for depth in range(0, DMAX + 1):
            try:
                cur = np.asarray(htm.HTM(depth).lookup_id(ra, dec))
            except Exception as e:
                return rec.fail(case, "lookup_id raised %s: %s (depth %d)" % (type(e).__name__, e, depth))
            if cur.shape != ra.shape or cur.min() < 8 * 4 ** depth or cur.max() >= 16 * 4 ** depth:
                return rec.fail(case, "ids out of range / wrong shape at depth %d" % depth)
            if prev is not None:
                bad = np.nonzero((cur >> 2) != prev)[0]
                if bad.size:
                    k = int(bad[0])
                    return rec.fail(case, "position ra=%r dec=%r (on an edge of a level-%d triangle): id %d at depth %d is not a child of id %d at depth %d (%d positions)"
                                    % (float(ra[k]), float(dec[k]), lev, int(cur[k]), depth, int(prev[k]), depth - 1, bad.size))
            prev = cur
        rec.ok(case, outcome="edge-chain:level%d" % lev, nontrivial=True, calls=DMAX + 1)

    ecunits = [(lev, part, nparts) for lev, nparts in ((3, 1), (4, 2), (5, 8)) + ctx.pick((), ((6, 32),)) for part in range(nparts)]
    ctx.lattice("ids-on-coarse-edges", ecunits, one_edge_chain, envstrict=True,
                bounds=dict(levels=[3, 4, 5] + ctx.pick([], [6]), points_per_edge="mid-point, 1/3, 3/4, and the float64 neighbours in ra and dec", depth_max=DMAX))

    # ---- positions at the implementation's own DECISION boundaries
    # The library does not switch triangles exactly on the edge but where its (tolerant) inside test flips, some 1e-14
    # degrees away.  For an edge point of every level-3..5 triangle the declination at which the level ancestor of the
    # depth-12 id (and, separately, of the depth-13 and depth-20 id) changes is located by bisection down to adjacent
    # float64 values - all edges at once, array calls - and the float64 neighbourhood of every located boundary
    # (+-3 ulps) is then put through the id chain over all depths.
    def one_boundary(case, rec):
        lev, part, nparts = case
        ids = np.arange(8 * 4 ** lev, 16 * 4 ** lev, dtype="i8")[part::nparts]
        v0, v1, v2 = triangles(ids, lev)
        m = v0 * 0.5 + v1 * 0.5
        m = m / np.sqrt((m * m).sum(axis=1))[:, None]
        ra = ((np.arctan2(m[:, 1], m[:, 0]) / D2R) % 360).astype("f8") % 360.0
        dec0 = (np.arctan2(m[:, 2], np.hypot(m[:, 0], m[:, 1])) / D2R).astype("f8")
        ok = np.abs(dec0) < 89.0
        ra, dec0 = ra[ok], dec0[ok]
        found = []
        for dsearch in (12, 13, DMAX):
            h = htm.HTM(dsearch)
            sh = 2 * (dsearch - lev)
            lo, hi = dec0 - 1e-7, dec0 + 1e-7
            alo, ahi = h.lookup_id(ra, lo) >> sh, h.lookup_id(ra, hi) >> sh
            use = alo != ahi                      # the edge is crossed between lo and hi
            if not use.any():
                continue
            r, lo, hi, alo = ra[use], lo[use], hi[use], alo[use]
            for _ in range(70):
                mid = lo + (hi - lo) / 2
                stop = (mid == lo) | (mid == hi)
                am = h.lookup_id(r, mid) >> sh
                left = (am == alo) & ~stop
                right = (am != alo) & ~stop
                lo = np.where(left, mid, lo)
                hi = np.where(right, mid, hi)
                if stop.all():
                    break
            found.append((r, lo))
        if not found:
            return rec.fail(case, "harness: no edge crossing located")
        R = np.concatenate([f[0] for f in found])
        B = np.concatenate([f[1] for f in found])
        ras, decs = [], []
        for k in range(-3, 4):
            d = B.copy()
            for _ in range(abs(k)):
                d = np.nextafter(d, 100.0 if k > 0 else -100.0)
            ras.append(R)
            decs.append(d)
        ra_all, dec_all = np.concatenate(ras), np.concatenate(decs)
        prev = None
        for depth in range(0, DMAX + 1):
            cur = np.asarray(htm.HTM(depth).lookup_id(ra_all, dec_all))
            if cur.min() < 8 * 4 ** depth or cur.max() >= 16 * 4 ** depth:
                return rec.fail(case, "ids out of range at depth %d" % depth)
            if prev is not None:
                bad = np.nonzero((cur >> 2) != prev)[0]
                if bad.size:
                    k = int(bad[0])
                    return rec.fail(case, "position ra=%r dec=%r (where the inside test of a level-%d edge flips): id %d at depth %d is not a child of "
                                          "id %d at depth %d (%d positions)" % (float(ra_all[k]), float(dec_all[k]), lev, int(cur[k]), depth, int(prev[k]), depth - 1, bad.size))
            prev = cur
        rec.ok(case, outcome="boundary-chain:level%d" % lev, nontrivial=True, calls=3 * 72 + DMAX + 1)

    bdunits = [(lev, part, nparts) for lev, nparts in ((3, 1), (4, 2), (5, 8)) + ctx.pick((), ((6, 32),)) for part in range(nparts)]
    ctx.lattice("ids-at-decision-boundaries", bdunits, one_boundary,
                bounds=dict(levels=[3, 4, 5] + ctx.pick([], [6]), located_at_depths=[12, 13, DMAX], neighbourhood="+-3 ulps in declination", depth_max=DMAX))

    def one_id_array(case, rec):
        """the whole position set in ONE array call (also float32 input) against element-wise scalar calls"""
        depth, sd, dt = case
        pts = positions_cached(sd)
        ra = np.array([q[0] for q in pts]).astype(dt)
        dec = np.array([q[1] for q in pts]).astype(dt)
        h = htm.HTM(depth)
        ids = h.lookup_id(ra, dec)
        if ids.shape != ra.shape or ids.dtype != np.dtype("i8"):
            return rec.fail(case, "array call returned shape %r dtype %s" % (ids.shape, ids.dtype))
        calls = 1
        for j in range(ra.size):
            s = h.lookup_id(float(ra[j]), float(dec[j]))
            calls += 1
            if int(s[0]) != int(ids[j]):
                return rec.fail(case, "element %d (%r,%r): array id %d, scalar id %d"
                                % (j, float(ra[j]), float(dec[j]), int(ids[j]), int(s[0])))
        if ids.min() < 8 * 4 ** depth or ids.max() >= 16 * 4 ** depth:
            return rec.fail(case, "ids outside the range of depth %d" % depth)
        v0, v1, v2 = triangles(ids, depth)
        o, slack = outside(unitvec(ra.astype("f8"), dec.astype("f8")), v0, v1, v2)
        w = np.nonzero(o > slack)[0]
        if w.size:
            j = int(w[0])
            return rec.fail(case, "element %d (%r,%r) is %.3g rad outside its triangle %d"
                            % (j, float(ra[j]), float(dec[j]), float(o[j]), int(ids[j])))
        rec.ok(case, outcome="array:%s" % dt, nontrivial=True, calls=calls)

    au = [(d, seed, dt) for d in ctx.pick((0, 1, 2, 5, 10, 20), tuple(range(0, 25))) for dt in ("f8", "f4")]
    ctx.lattice("ids-whole-array", au, one_id_array, envstrict=True, bounds=dict(depths=sorted(set(u[0] for u in au))))

    # ============================================================ intersect
    CENTRES = [(10.0, 20.0), (0.0, 0.0), (0.0, 90.0), (123.0, -90.0), (359.9999999, 10.0), (90.0, 0.0),
               (45.0, SQ), (45.0, 0.0), (200.0, -89.9999), (180.0, -45.0)] + generic_points(seed, 2)
    if not ctx.quick:
        CENTRES += [(1e-7, 10.0), (180.0, 0.0), (270.0, 0.0), (0.0, 45.0), (20.0, 89.9999), (90.0, 45.0),
                    (225.0, -45.0), (0.0, 22.5), (67.5, 0.0), (360.0, -30.0)] + generic_points(seed, 5)[2:]
    IDEPTHS = (1, 2, 3, 4, 5, 6, 7, 8, 9, 10, 11, 12)
    RFAC = ctx.pick((0.01, 0.5, 3.0, 20.0), (0.01, 0.03, 0.1, 0.3, 0.5, 1.0, 2.0, 3.0, 5.0, 8.0, 12.0, 20.0, 40.0))
    D90 = ctx.pick(6, 8)
    NGRID = ctx.pick((40, 48), (80, 96))

    def one_intersect(case, rec):
        ra, dec, depth, radius, sd, ngrid = case
        return check_circle(case, rec, ra, dec, depth, radius, sd, ngrid)

    def check_circle(case, rec, ra, dec, depth, radius, sd, ngrid, extra=None, tag=""):
        """all oracles for ONE circle; extra = additional probe positions (ra array, dec array)"""
        nrad, nbear = ngrid
        h = htm.HTM(depth)
        try:
            inc = h.intersect(ra, dec, radius)
            full = h.intersect(ra, dec, radius, inclusive=False)
            inc2 = h.intersect(ra, dec, radius, inclusive=True)
        except Exception as e:
            return rec.fail(case, "intersect raised %s: %s" % (type(e).__name__, e))
        calls = 3
        for nm, l in (("inclusive", inc), ("full", full), ("inclusive=True", inc2)):
            if not isinstance(l, np.ndarray) or l.dtype != np.dtype("i8") or l.ndim != 1:
                return rec.fail(case, "%s list is not a 1-d int64 array: %r" % (nm, type(l)))
            if l.size and (l.min() < 8 * 4 ** depth or l.max() >= 16 * 4 ** depth):
                return rec.fail(case, "%s list has ids outside the range of depth %d: min %d max %d"
                                % (nm, depth, l.min(), l.max()))
        sinc = np.sort(inc)
        sfull = np.sort(full)
        # ---- the centre's own triangle
        cid = int(h.lookup_id(ra, dec)[0])
        calls += 1
        if not np.isin(cid, sinc):
            return rec.fail(case, "the centre's own triangle %d is not in the inclusive list" % cid)
        # ---- own enumeration of the triangles near the circle (used by both oracles)
        cen = unitvec(ra, dec)
        rr = LD(radius) * D2R
        nid, v0, v1, v2 = near_triangles(cen, rr, depth)
        smp = samples7(v0, v1, v2)
        # ---- oracle A: probe positions looked up with lookup_id
        rings = [0.999, 1.001, 1 - 1e-6, 1 + 1e-6]
        fr = np.concatenate([np.arange(1, nrad + 1) * (1.6 / nrad), rings])
        pa = np.arange(nbear) * (360.0 / nbear)
        FR, PA = [a.ravel() for a in np.meshgrid(fr * radius, pa)]
        ok = FR <= 179.9
        pr, pd = offset(ra, dec, FR[ok], PA[ok])
        pts = positions_cached(sd)
        # the vertices, edge midpoints and centroids of the triangles near the circle as positions (these lie
        # exactly on triangle boundaries); at most ~50k of them, taken with a fixed stride
        step = max(1, nid.size // 7000)
        sv = np.concatenate([x[::step] for x in smp])
        vr = ((np.arctan2(sv[:, 1], sv[:, 0]) / D2R) % 360).astype("f8") % 360.0
        vd = (np.arctan2(sv[:, 2], np.hypot(sv[:, 0], sv[:, 1])) / D2R).astype("f8")
        pr = np.concatenate([pr, [q[0] for q in pts], [ra], vr])
        pd = np.concatenate([pd, [q[1] for q in pts], [dec], vd])
        if extra is not None:
            pr = np.concatenate([np.asarray(extra[0], dtype="f8"), pr])
            pd = np.concatenate([np.asarray(extra[1], dtype="f8"), pd])
        pid = h.lookup_id(pr, pd)
        calls += 1
        s = ld_sep(ra, dec, pr, pd)
        inside = s <= radius * (1 - EPS)
        miss = inside & ~np.isin(pid, sinc)
        if miss.any():
            j = int(np.nonzero(miss)[0][0])
            return rec.fail(case, "position (%r,%r) is inside the circle (sep %.17g <= r) but its triangle %d is not "
                                  "in the inclusive list (%d ids)" % (float(pr[j]), float(pd[j]), float(s[j]),
                                                                      int(pid[j]), sinc.size))
        infull = np.isin(pid, sfull)
        bad = infull & (s > radius * (1 + EPS))
        if bad.any():
            j = int(np.nonzero(bad)[0][0])
            return rec.fail(case, "triangle %d is reported fully inside but contains position (%r,%r) at sep %.17g > r"
                            % (int(pid[j]), float(pr[j]), float(pd[j]), float(s[j])))
        # ---- oracle B: geometry of every triangle near the circle
        dist = np.stack([vsep(x, cen[None, :]) for x in smp], axis=1)      # (N,7)
        must = (dist <= rr * (1 - LD(EPS))).any(axis=1)
        lost = must & ~np.isin(nid, sinc)
        if lost.any():
            j = int(np.nonzero(lost)[0][0])
            return rec.fail(case, "triangle %d has a vertex/midpoint/centroid %.3g rad inside the circle but is not in "
                                  "the inclusive list" % (int(nid[j]), float(rr - dist[j].min())))
        isfull = np.isin(nid, sfull)
        far = dist.max(axis=1)
        w = np.nonzero(isfull & (far > rr * (1 + LD(EPS))))[0]
        if w.size:
            j = int(w[0])
            return rec.fail(case, "triangle %d is reported fully inside but one of its vertices/midpoints is %.3g rad "
                                  "outside the circle" % (int(nid[j]), float(far[j] - rr)))
        # ---- list hygiene
        if not np.isin(sfull, sinc).all():
            return rec.fail(case, "full list is not a subset of the inclusive list: %r"
                            % (np.setdiff1d(sfull, sinc)[:5].tolist(),))
        if not np.array_equal(sinc, np.sort(inc2)):
            return rec.fail(case, "default call and inclusive=True give different lists")
        for nm, l in (("inclusive", sinc), ("full", sfull)):
            if np.unique(l).size != l.size:
                return rec.fail(case, "%s list contains duplicate ids" % nm)
        stray = ~np.isin(sinc, nid)
        if stray.any():
            # vacuity guard only (not in the statement): the library may list a few triangles that just miss the
            # circle (for radii >= 90 degrees, where the constraint cosine is not positive, it does: measured up to
            # 0.56 bounding radii away), but nothing farther than one more bounding radius
            wid = near_triangles(cen, rr, depth, factor=2.02)[0]
            stray = ~np.isin(sinc, wid)
            rec.count("listed_triangles_just_outside", int((~np.isin(sinc, nid)).sum()))
        if stray.any():
            return rec.fail(case, "inclusive list contains triangle %d whose doubled bounding circle does not meet the "
                                  "circle" % int(sinc[stray][0]))
        rec.count("probes", int(pid.size))
        rec.count("probes_inside", int(inside.sum()))
        rec.count("triangles_enumerated", int(nid.size))
        rec.count("triangles_that_must_be_listed", int(must.sum()))
        rec.count("listed_triangles", int(sinc.size))
        rec.count("full_triangles", int(sfull.size))
        if sinc.size == 1:
            oc = "single-triangle"
        elif sfull.size == 0:
            oc = "partial-only"
        else:
            oc = "full+partial"
        if radius == 90.0:
            oc += "+hemisphere"
        if abs(dec) == 90.0:
            oc += "+pole-centre"
        rec.ok(case, outcome=tag + oc, nontrivial=sinc.size > 1, calls=calls)

    iunits = []
    for depth in IDEPTHS:
        width = 90.0 / 2 ** depth
        radii = [f * width for f in RFAC if f * width <= 90.0]
        radii.append(1e-4)
        if depth <= D90:
            radii.append(90.0)
            radii.append(89.99)
        for (ra, dec) in CENTRES:
            for r in radii:
                iunits.append((ra, dec, depth, r, seed, NGRID))
    ctx.lattice("intersect", iunits, one_intersect,
                bounds=dict(centres=CENTRES, depths=list(IDEPTHS), radius_factors_of_triangle_width=list(RFAC),
                            absolute_radii=[1e-4, 89.99, 90.0], hemisphere_max_depth=D90,
                            probe_grid_radii_x_bearings=list(NGRID), probe_rings=[0.999, 1.001, "1-1e-6", "1+1e-6"],
                            probe_extent="1.6 r"))

    # ---- circles that graze a triangle edge / a triangle vertex
    # edge: (level, triangle id, edge index, fraction along the edge)
    GEDGES = [(0, 15, 2, 0.37), (0, 15, 0, 0.5), (0, 15, 1, 0.13), (0, 8, 0, 0.5), (1, 63, 0, 0.5), (1, 63, 2, 0.29),
              (3, 1005, 0, 0.5), (3, 1005, 1, 0.41)]
    GRADII = ctx.pick((1e-4, 1e-3, 1e-2, 0.3), (1e-4, 2e-4, 5e-4, 1e-3, 3e-3, 1e-2, 0.05, 0.3, 2.0))
    GDEPTHS = ctx.pick((1, 6, 12), (1, 3, 6, 9, 12))
    GK = ctx.pick((3, 5, 6, 7), (2, 3, 4, 5, 6, 7))

    def graze_geometry(edge, side, radius, k):
        """centre at (1-10^-k) r from the edge on side `side` (+1: inside the named triangle), and three probe
        positions across the edge inside the circle, 0.1/0.5/0.9 of the sliver deep"""
        level, tid, j, t = edge
        m, n = edge_frame(level, tid, j, t)
        rr = LD(radius) * D2R
        f = 1 - LD(10) ** (-k)
        cra, cdec = radec(move(m, n, side * f * rr))
        g = np.array([0.1, 0.5, 0.9], dtype=LD)
        pra, pdec = radec(move(m, n, -side * g * (1 - f) * rr))
        return float(cra), float(cdec), pra, pdec

    def one_graze(case, rec):
        kind, edge, side, depth, radius, k, sd, ngrid = case
        if kind == "edge":
            cra, cdec, pra, pdec = graze_geometry(edge, side, radius, k)
            return check_circle(case, rec, cra, cdec, depth, radius, sd, ngrid, extra=(pra, pdec),
                                tag="edge-sliver-1e-%d:" % k)
        # vertex: the circle passes a vertex of the triangle at (1 -+ 10^-k) r; radius in triangle widths
        level, tid, j, t = edge
        vs = triangles([tid], level)
        vra, vdec = radec(vs[j][0])
        r = radius * 90.0 / 2 ** depth
        cra, cdec = offset(float(vra), float(vdec), r * (1 - side * 10.0 ** (-k)), 77.0)
        return check_circle(case, rec, float(cra), float(cdec), depth, r, sd, ngrid,
                            extra=(np.array([vra]), np.array([vdec])),
                            tag="vertex-%s-1e-%d:" % ("inside" if side > 0 else "outside", k))

    gunits = []
    for edge in GEDGES:
        for depth in GDEPTHS:
            if depth < edge[0]:
                continue
            for radius in GRADII:
                for k in GK:
                    for side in (1, -1):
                        gunits.append(("edge", edge, side, depth, radius, k, seed, (8, 12)))
            for wfac in (1.5, 3.0):
                for k in GK:
                    for side in (1, -1):
                        gunits.append(("vertex", edge, side, depth, wfac, k, seed, (8, 12)))
    ctx.lattice("intersect-grazing", gunits, one_graze,
                bounds=dict(edges_level_id_edge_fraction=GEDGES, radii=list(GRADII), depths=list(GDEPTHS),
                            sliver_depth_exponents=list(GK), vertex_radius_in_widths=[1.5, 3.0]))

    # ============================================================== bincount
    BINS = [(0.1, 1.0, 2), (0.01, 10.0, 3), (0.5, 5.0, 1), (0.001, 180.0, 5), (0.1, 60.0, 3), (0.2, 120.0, 2)]
    if not ctx.quick:
        BINS += [(0.03, 3.0, 4), (0.2, 20.0, 2), (1.0, 100.0, 2), (0.04, 0.06, 1), (0.002, 0.2, 7)]
    # (per-point scales rising, falling and alternating: a smaller scale means a LARGER search circle)
    SCALES = [None, 25.0, ("one", 25.0), ("lin", 20.0, 40.0), ("lin", 40.0, 10.0), ("zig", 40.0, 8.0)]

    def scale_value(sc, n1):
        if sc is None or isinstance(sc, float):
            return sc
        if sc[0] == "one":
            return np.array([sc[1]])
        if sc[0] == "zig":
            return np.array([sc[1] if i % 2 == 0 else sc[2] for i in range(n1)], dtype="f8")
        if sc[0] == "near":
            # NEARLY equal per-point scales: s0 * (1 + m_i * rel), one multiplier m_i per first-set point
            return np.array([sc[1] * (1.0 + m * sc[2]) for m in sc[3]], dtype="f8")
        return np.linspace(sc[1], sc[2], n1)

    def one_bincount(case, rec):
        depth, bins, sc, s1, s2, form, sd = case
        rmin, rmax, nbin = bins
        if s1 == "anchor":
            sc0 = None if sc is None else (sc if isinstance(sc, float) else sc[1])
            ra2, dec2 = edge_family(bins, sc0)
            ra1, dec1 = ra2[:1], dec2[:1]
        elif s1 == "nearanchors":
            ra1, dec1, ra2, dec2 = near_edge_family(bins, scale_value(sc, len(sc[3])))
        else:
            ra, dec, tags = bpoints(sd)
            i1 = bselect(s1, ra, dec, tags)
            i2 = bselect(s2, ra, dec, tags)
            ra1, dec1, ra2, dec2 = ra[i1], dec[i1], ra[i2], dec[i2]
        n1 = ra1.size
        scale = scale_value(sc, n1)
        # ---- brute force
        D = ld_sep(ra1[:, None], dec1[:, None], ra2[None, :], dec2[None, :])
        if scale is None:
            R = np.asarray(D, dtype=LD)
        else:
            scv = np.broadcast_to(np.asarray(scale, dtype=LD), (n1,))
            R = np.asarray(D, dtype=LD) * D2R * scv[:, None]
        lo, hi, tlo, thi, edges, flags = brute(R, bins)
        # ---- the real calls
        if form == "scalar1":
            # the first set (one point) and a one-element scale given as python scalars
            a1, d1, a2, d2 = float(ra1[0]), float(dec1[0]), ra2.copy(), dec2.copy()
            scarg = scale if (scale is None or isinstance(scale, float)) else float(scale[0])
        else:
            a1, d1, a2, d2 = [as_form(v, form) for v in (ra1, dec1, ra2, dec2)]
            scarg = scale if (scale is None or isinstance(scale, float)) else as_form(scale, form)
        idform = "native" if form == "scalar1" else form
        results = {}
        calls = 0

        def call(route, **kw):
            h = htm.HTM(depth)
            return h.bincount(rmin, rmax, nbin, a1, d1, a2, d2, scale=scarg, **kw)

        try:
            results["internal"] = call("internal")
            calls += 1
            h0 = htm.HTM(depth)
            ids = h0.lookup_id(ra2, dec2)
            calls += 1
            mn, mx = int(ids.min()), int(ids.max())
            results["ids"] = call("ids", htmid2=as_form(ids, idform))
            calls += 1
            hh, hrev = stat.histogram(ids - mn, rev=True)
            results["ids+rev"] = call("ids+rev", htmid2=ids, htmrev2=hrev)
            calls += 1
            results["ids+rev+minmax"] = call("full", htmid2=ids, htmrev2=hrev, minid=mn, maxid=mx)
            calls += 1
            nrev = reverse_indices(ids, mn, mx)
            results["ids+numpy-rev+minmax"] = call("np", htmid2=ids.copy(), htmrev2=nrev, minid=mn, maxid=mx)
            calls += 1
            cnt_only = htm.HTM(depth).bincount(rmin, rmax, nbin, a1, d1, a2, d2, scale=scarg, getbins=False)
            calls += 1
        except Exception as e:
            return rec.fail(case, "bincount raised %s: %s (after routes %r)" % (type(e).__name__, e, sorted(results)))
        l, u, c = results["internal"]
        c = np.asarray(c)
        if c.shape != (nbin,) or c.dtype.kind != "i":
            return rec.fail(case, "counts have shape %r dtype %s" % (c.shape, c.dtype))
        for route, (l2, u2, c2) in results.items():
            if not (np.array_equal(c2, c) and np.array_equal(l2, l) and np.array_equal(u2, u)):
                return rec.fail(case, "route %s gives counts %r, internal ids give %r"
                                % (route, np.asarray(c2).tolist(), c.tolist()))
        if not np.array_equal(np.asarray(cnt_only), c):
            return rec.fail(case, "getbins=False gives counts %r, getbins=True %r" % (np.asarray(cnt_only).tolist(), c.tolist()))
        if not (np.all(c >= lo) and np.all(c <= hi)):
            return rec.fail(case, "counts %r differ from the brute-force count: admissible per bin %r..%r "
                                  "(pairs: %s)" % (c.tolist(), lo.tolist(), hi.tolist(), "+".join(flags)))
        if not (tlo <= int(c.sum()) <= thi):
            return rec.fail(case, "total count %d outside the brute-force total %d..%d (a pair near an inner edge "
                                  "counted twice or not at all); counts %r" % (int(c.sum()), tlo, thi, c.tolist()))
        l = np.asarray(l, dtype="f8")
        u = np.asarray(u, dtype="f8")
        if l.shape != (nbin,) or u.shape != (nbin,) or \
                np.abs(u / edges[1:] - 1).max() > 1e-12 or np.abs(l / edges[:-1] - 1).max() > 1e-12:
            return rec.fail(case, "bin edges lower=%r upper=%r differ from log-spaced %r" % (l.tolist(), u.tolist(),
                                                                                         edges.tolist()))
        kind = "none" if sc is None else ("scalar" if isinstance(sc, float) else sc[0])
        oc = "scale=%s:%s" % (kind, "+".join(flags) if flags else "no-pairs")
        nontriv = ("in" in flags) and (("just-below" in flags) or ("above" in flags) or ("zero" in flags)
                                       or ("far-below" in flags))
        rec.count("pairs_compared", int(R.size))
        rec.ok(case, outcome=oc, nontrivial=nontriv, calls=calls)

    def on_lattice(bins, sc, depth):
        """meaningful search angle (<= 180 degrees), and for depth > 6 a search angle of at most 64 triangle
        widths (cost: the triangle list of every first-set point grows as 4^depth)"""
        rmin, rmax, nbin = bins
        if sc is None:
            ang = rmax
        else:
            ang = rmax / (sc if isinstance(sc, float) else sc[1] * 0.7 if sc[0] == "near" else min(sc[1:])) * 180.0 / np.pi
        if ang > 180.0:
            return False
        return depth <= 6 or ang <= 64 * 90.0 / 2 ** depth

    PAIRS_Q = [("all", "all"), ("base", "all"), ("all", "base"), ("one", "all"), ("all", "one"), ("polar", "all"),
               ("seam", "seam"), ("even", "odd"), ("dup", "dup"), ("base", "dest"), ("north", "south"),
               ("dest", "rev"), ("anchor", "edges"), ("runs", "all"), ("runs", "local")]
    PAIRS_T = PAIRS_Q + [("odd", "even"), ("south", "north"), ("dest", "base"), ("all", "polar"), ("seam", "all"),
                         ("all", "seam"), ("dup", "all"), ("all", "dup"), ("rev", "all"), ("local", "local")]
    bunits = []
    for depth in ctx.pick((3, 6), (1, 2, 3, 4, 5, 6)):
        for bins in BINS:
            for sc in SCALES:
                if not on_lattice(bins, sc, depth):
                    continue
                for (s1, s2) in ctx.pick(PAIRS_Q, PAIRS_T):
                    bunits.append((depth, bins, sc, s1, s2, "native", seed))
    # memory forms on a reduced product
    for depth in (3, 6):
        for bins in BINS[:2]:
            for sc in SCALES:
                if not on_lattice(bins, sc, depth):
                    continue
                for form in ("swapped", "strided", "list", "2d", "2d-F", "2d-alt"):
                    for (s1, s2) in (("base", "all"), ("anchor", "edges")):
                        bunits.append((depth, bins, sc, s1, s2, form, seed))
                for (s1, s2) in (("one", "all"), ("anchor", "edges")):
                    bunits.append((depth, bins, sc, s1, s2, "scalar1", seed))
    # depth 8 (sphere-wide second set: 5e5-entry reverse index table) on a reduced product
    for bins in BINS[:3]:
        for sc in (None, 25.0, ("lin", 20.0, 40.0)):
            if not on_lattice(bins, sc, 8):
                continue
            for (s1, s2) in ctx.pick((("base", "all"), ("anchor", "edges")),
                                     (("base", "all"), ("anchor", "edges"), ("all", "all"), ("polar", "all"))):
                bunits.append((8, bins, sc, s1, s2, "native", seed))
    # deep trees with a localised second set (small id range)
    DEEPBINS = [(0.1, 1.0, 2), (0.002, 0.2, 2), (0.02, 0.5, 3)]
    for depth in ctx.pick((10, 12), (9, 10, 11, 12, 13)):
        for bins in DEEPBINS:
            for sc in (None, 25.0, ("lin", 20.0, 40.0)):
                if not on_lattice(bins, sc, depth):
                    continue
                for (s1, s2) in (("local", "local"), ("anchor", "edges"), ("all", "local")):
                    bunits.append((depth, bins, sc, s1, s2, "native", seed))
    ctx.lattice("bincount", bunits, one_bincount, envstrict=True,
                bounds=dict(bins=BINS, deep_bins=DEEPBINS, depths=sorted(set(u[0] for u in bunits)), scales=[str(s) for s in SCALES], set_pairs=ctx.pick(PAIRS_Q, PAIRS_T),
                            routes=["internal", "ids", "ids+rev", "ids+rev+minmax", "ids+numpy-rev+minmax",
                                    "getbins=False"], forms=["native", "swapped", "strided", "list", "2d", "2d-F (column-major memory)", "2d-alt (column- and row-major arguments mixed)", "scalar1"]))

    # ---- per-point scales that are NEARLY equal, against partners NEARLY on a bin edge of their own scale: the ladder
    # of relative scale spreads (0 = exactly constant .. 0.1) x the ladder of relative edge offsets (NEAR_F, both signs,
    # inside near_edge_family) x which first-set point deviates in which direction.  Reference: brute force with each
    # point's own scale in long double (one_bincount); pairs within EPS of an edge stay unconstrained.
    NEAR_REL = (0.0, 1e-12, 1e-10, 1e-8, 1e-7, 1e-6, 3e-6, 1e-5, 3e-5, 1e-4, 1e-3, 1e-2, 0.1)
    NEAR_PAT = ((0, 1), (0, -1), (1, 0), (0, 1, -1), (1, -1, 0), (0, 0, 1))
    NEAR_BINS = [(0.1, 1.0, 2), (0.01, 10.0, 3), (0.02, 0.5, 3)]
    NEAR_S0 = (25.0, 412.0)
    nunits = []
    # (depth <= 7: the three anchors are spread over the sphere, so the id range - the reverse-index table - is 8*4^depth)
    for depth in ctx.pick((3, 6), (1, 3, 5, 6, 7)):
        for bins in NEAR_BINS:
            for s0 in NEAR_S0:
                for rel in NEAR_REL:
                    for pat in NEAR_PAT:
                        sc = ("near", s0, rel, pat)
                        if bins[1] / (s0 * 0.7) * 180.0 / np.pi * 1.02 > 50.0 or not on_lattice(bins, sc, depth):
                            continue
                        nunits.append((depth, bins, sc, "nearanchors", "nearedges", "native", seed))
                for form in ("strided", "list", "swapped"):
                    sc = ("near", s0, 3e-6, (0, 1, -1))
                    if depth <= 6 and on_lattice(bins, sc, depth):
                        nunits.append((depth, bins, sc, "nearanchors", "nearedges", form, seed))
    ctx.lattice("bincount-nearly-equal-scales", nunits, one_bincount, envstrict=True,
                bounds=dict(bins=NEAR_BINS, s0=list(NEAR_S0), relative_scale_spread=list(NEAR_REL),
                            deviation_patterns=[list(p) for p in NEAR_PAT], relative_edge_offsets=list(NEAR_F),
                            depths=sorted(set(u[0] for u in nunits))))

    # ---- supplied ids / reverse indices in other dtypes, byte orders and strides
    def one_revform(case, rec):
        depth, bins, what, sd = case
        rmin, rmax, nbin = bins
        ra, dec, tags = bpoints(sd)
        i1 = bselect("base", ra, dec, tags)
        ra1, dec1 = ra[i1], dec[i1]
        h = htm.HTM(depth)
        ids = h.lookup_id(ra, dec)
        mn, mx = int(ids.min()), int(ids.max())
        rev = reverse_indices(ids, mn, mx)
        want = htm.HTM(depth).bincount(rmin, rmax, nbin, ra1, dec1, ra, dec, getbins=False)
        idarg, revarg = ids, rev
        if what == "rev>i8":
            revarg = rev.astype(">i8")
        elif what == "rev-i4":
            revarg = rev.astype("i4")
        elif what == "rev-f8":
            revarg = rev.astype("f8")
        elif what == "rev-strided":
            revarg = as_form(rev, "strided")
        elif what == "rev-list":
            revarg = rev.tolist()
        elif what == "ids>i8":
            idarg = ids.astype(">i8")
        elif what == "ids-strided":
            idarg = as_form(ids, "strided")
        elif what == "both>i8":
            idarg, revarg = ids.astype(">i8"), rev.astype(">i8")
        mnarg, mxarg = mn, mx
        if what.startswith("minmax-"):
            # the id limits as the caller has them: numpy scalars of the id column's type (.min()/.max()), floats
            t = what[7:]
            conv = {"i4": np.int32, "u4": np.uint32, "i8": np.int64, "u8": np.uint64, "f8": np.float64, "pyfloat": float,
                    "0d-i4": lambda v: np.array(v, dtype="i4"), "ids.min()": None}[t]
            if conv is None:
                idarg = ids.astype("i4")
                mnarg, mxarg = idarg.min(), idarg.max()
            else:
                mnarg, mxarg = conv(mn), conv(mx)
        elif what == "python-histogram":
            pass
        pyh = what == "python-histogram"

        def run():
            if pyh:
                from esutil.stat import util as _su
                _su.have_chist = False           # the pure-Python histogram engine makes the reverse indices
                return np.asarray(htm.HTM(depth).bincount(rmin, rmax, nbin, ra1, dec1, ra, dec, getbins=False)).tolist()
            return np.asarray(htm.HTM(depth).bincount(
                rmin, rmax, nbin, ra1, dec1, ra, dec, htmid2=idarg, htmrev2=revarg, minid=mnarg, maxid=mxarg,
                getbins=False)).tolist()
        st, got = in_child(run)
        if st != "ok":
            return rec.fail(case, "bincount with supplied %s: %s" % (what, got))
        if not np.array_equal(got, want):
            return rec.fail(case, "supplied %s gives counts %r, internal ids %r" % (what, np.asarray(got).tolist(),
                                                                                  np.asarray(want).tolist()))
        rec.ok(case, outcome="supplied:%s" % what, nontrivial=True, calls=3)

    runits = [(d, BINS[1], w, seed) for d in (3, 6)
              for w in ("rev>i8", "rev-i4", "rev-f8", "rev-strided", "rev-list", "ids>i8", "ids-strided", "both>i8",
                        "minmax-i4", "minmax-u4", "minmax-i8", "minmax-u8", "minmax-f8", "minmax-pyfloat", "minmax-0d-i4", "minmax-ids.min()",
                        "python-histogram")]
    ctx.lattice("bincount-supplied-forms", runits, one_revform, envstrict=True,
                bounds=dict(forms=sorted(set(u[2] for u in runits)), depths=[3, 6]))

    # ======================================= one object, several calls (E2)
    HOPS = (("id", 0), ("id", 1), ("isect", 0), ("isect", 1), ("count", 0), ("count", 1), ("count", 2))
    HDEPTH = 6

    def hist_do(h, op):
        ra, dec, tags = bpoints(0)
        if op[0] == "id":
            sl = slice(0, 40) if op[1] == 0 else slice(40, None)
            return [h.lookup_id(ra[sl], dec[sl])]
        if op[0] == "isect":
            c, r = ((10.0, 20.0), 3.0) if op[1] == 0 else ((0.0, 90.0), 0.4)
            return [np.sort(h.intersect(c[0], c[1], r)), np.sort(h.intersect(c[0], c[1], r, inclusive=False))]
        i1 = bselect("base", ra, dec, tags)
        if op[1] == 0:
            return list(h.bincount(0.1, 1.0, 2, ra[i1], dec[i1], ra, dec))
        if op[1] == 1:
            return list(h.bincount(0.01, 10.0, 3, ra[i1], dec[i1], ra, dec, scale=np.linspace(20.0, 40.0, i1.size)))
        ids = h.lookup_id(ra, dec)
        mn, mx = int(ids.min()), int(ids.max())
        return list(h.bincount(0.5, 5.0, 1, ra[i1], dec[i1], ra, dec, scale=25.0, htmid2=ids,
                               htmrev2=reverse_indices(ids, mn, mx), minid=mn, maxid=mx))

    fresh_cache = {}

    def execute(hist, rec):
        h = htm.HTM(HDEPTH)
        last = None
        for op in hist:
            try:
                last = hist_do(h, op)
            except Exception as e:
                rec.fail(hist, "%r raised %s: %s" % (op, type(e).__name__, e))
                return None
        if hist:
            op = hist[-1]
            if op not in fresh_cache:
                fresh_cache[op] = hist_do(htm.HTM(HDEPTH), op)
            for a, b in zip(last, fresh_cache[op]):
                if not (np.asarray(a).shape == np.asarray(b).shape and np.array_equal(a, b)):
                    rec.fail(hist, "result of %r after %r differs from the same call on a fresh HTM object: %r vs %r"
                             % (op, hist[:-1], np.asarray(a).tolist()[:12], np.asarray(b).tolist()[:12]))
                    return None
        return "HTM(%d)" % h.get_depth(), HOPS

    hd = ctx.pick(3, 4)
    ctx.histories("one-object-call-sequences", [()], execute, depth=hd, nodedup_depth=hd,
                  bounds=dict(ops=[str(o) for o in HOPS], depth=hd, htm_depth=HDEPTH))

    # ------------------------------------------- several live objects (process-wide state)
    # up to 3 HTM objects of different depth alive in one process, calls interleaved: the spatial-index tables
    # and id masks are per-depth; anything the C++ library keeps in statics would leak between depths
    from mc.worlds import object_world
    WRA = np.array([10.0, 200.0, 359.9999999, 45.0, 0.0])
    WDEC = np.array([-20.0, 45.0, 89.0, 0.0, 90.0])
    WRA2 = np.concatenate([WRA + 0.3, WRA - 0.05, WRA])
    WDEC2 = np.concatenate([WDEC * 0.99, WDEC * 0.999, WDEC])

    def h_do(h, kind, op):
        if op[0] == "ids":
            return [h.lookup_id(WRA, WDEC)]
        if op[0] == "badids":
            return [h.lookup_id(WRA, WDEC[:3])]         # mismatched lengths: must raise
        if op[0] == "intersect":
            return [np.sort(h.intersect(10.0, 20.0, op[1], inclusive=op[2]))]
        return list(h.bincount(0.01, 10.0, 3, WRA, WDEC, WRA2, WDEC2, getbins=False)) if op[0] == "bincount" else None

    def h_check(kind, op, res):
        depth = int(kind[1:])
        if op[0] == "ids":
            ids = np.asarray(res[0])
            if ids.shape != (5,) or ids.min() < 8 * 4 ** depth or ids.max() >= 16 * 4 ** depth:
                return "ids %r outside the range of depth %d" % (ids.tolist(), depth)

    def h_modules():
        import esutil.htm.htm as hm
        return [hm]

    def h_counts(r):
        return [np.asarray(v) for v in r]

    object_world(ctx, "several-objects", ["d3", "d6", "d9"], lambda kind: htm.HTM(int(kind[1:])),
                 [("ids",), ("intersect", 1.0, True), ("intersect", 1.0, False), ("bincount",), ("badids",)], h_do, h_modules, result_edits=True,
                 depth=ctx.pick(4, 5), check=h_check, state=lambda h: getattr(h, "__dict__", {}),
                 must_raise=lambda kind, op: op[0] == "badids")

    # ------------------------------------------------ long arrays through lookup_id (mc/longarr.py)
    from mc.longarr import tiled_elementwise, PERIOD, marks

    def sky_base():
        t = np.arange(PERIOD, dtype="f8")
        ra = (t * 137.50776405) % 360.0
        dec = np.degrees(np.arcsin(np.clip(-1.0 + 2.0 * (t + 0.5) / PERIOD, -1, 1)))
        ra[5], dec[5] = 0.0, 90.0
        ra[6], dec[6] = 45.0, -90.0
        ra[7], dec[7] = 360.0, 0.0
        return ra, dec

    hspecs = {}
    for dpt in (1, 10, 20):
        hh = htm.HTM(dpt)
        hspecs["lookup_id(depth=%d)" % dpt] = (sky_base, (lambda ra, dec, h=hh: h.lookup_id(ra, dec)))
    tiled_elementwise(ctx, "long-arrays", hspecs, marks(ctx), harvest=([__import__("esutil.htm.htm", fromlist=["x"])], ["htm"]))
