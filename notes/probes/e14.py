import numpy as np, warnings
warnings.simplefilter('ignore')
from esutil import coords
LD=np.longdouble
d2r=LD(np.pi)/180
def vec(lon,lat):
    lon=np.asarray(lon,dtype=LD)*d2r; lat=np.asarray(lat,dtype=LD)*d2r
    return np.array([np.cos(lat)*np.cos(lon),np.cos(lat)*np.sin(lon),np.sin(lat)])
def sepv(a,b):
    c=np.cross(a.T,b.T).T
    return (np.arctan2(np.sqrt((c**2).sum(0)),(a*b).sum(0))/d2r).astype('f8')
def lonlat(v):
    return (np.arctan2(v[1],v[0])/d2r%360).astype('f8'),(np.arctan2(v[2],np.hypot(v[0],v[1]))/d2r).astype('f8')
def Rz(a): a=LD(a)*d2r; c,s=np.cos(a),np.sin(a); return np.array([[c,s,0],[-s,c,0],[0,0,1]],dtype=LD)
def Rx(a): a=LD(a)*d2r; c,s=np.cos(a),np.sin(a); return np.array([[1,0,0],[0,c,s],[0,-s,c]],dtype=LD)
# eq->gal from pole (aG,dG) and lomega = gal longitude of ascending node of gal plane on equator.. standard: l_NCP = 122.93192 (J2000); lomega=32.93192 = l_NCP-90
def eq2gal_M(aG,dG,lom):
    # rotate z by aG+90 -> x axis to ascending node ; rotate x by (90-dG); rotate z by -lom
    return Rz(-lom) @ Rx(90-dG) @ Rz(aG+90)
def eq2ec_M(eps): return Rx(eps)
consts={False:dict(aG=192.85948,dG=27.12825,lom=32.93192,eps=23.4392911111), True:dict(aG=192.25,dG=27.4,lom=33.0,eps=23.4457889)}
rng=np.random.RandomState(0)
n=2000
lon=rng.uniform(0,360,n); lat=np.rad2deg(np.arcsin(rng.uniform(-1,1,n)))
for b in (False,True):
    c=consts[b]
    Mg=eq2gal_M(c['aG'],c['dG'],c['lom']); Me=eq2ec_M(c['eps'])
    M={1:Mg,2:Mg.T,3:Me,4:Me.T,5:Mg@Me.T,6:Me@Mg.T}
    for sel in range(1,7):
        lo,la=coords.euler(lon,lat,sel,b1950=b)
        rl=M[sel]@vec(lon,lat)
        e=sepv(vec(lo,la),rl)
        inv={1:2,2:1,3:4,4:3,5:6,6:5}[sel]
        lo2,la2=coords.euler(lo,la,inv,b1950=b)
        rt=sepv(vec(lo2,la2),vec(lon,lat))
        print(b,sel,'vs ref max',e.max(),'roundtrip max',rt.max(), 'range',lo.min(),lo.max(),la.min(),la.max())
# near-pole round trip error as function of distance from target pole
for b in (False,):
  for dist in (1e-8,1e-6,1e-4,1e-3,1e-2,0.1,1,10):
    # points at distance dist from gal north pole in eq coords
    c=consts[b]; Mg=eq2gal_M(c['aG'],c['dG'],c['lom'])
    gl=np.arange(0,360,30.); gb=np.full(gl.size,90-dist)
    v=Mg.T@vec(gl,gb); ra,dec=lonlat(v)
    lo,la=coords.eq2gal(ra,dec); e=sepv(vec(lo,la),vec(gl,gb))
    ra2,dec2=coords.gal2eq(lo,la); rt=sepv(vec(ra2,dec2),vec(ra,dec))
    print('dist',dist,'err vs ref',e.max(),'roundtrip',rt.max())
# sdss
cl,ce=coords.eq2sdss(lon,lat); ra2,dec2=coords.sdss2eq(cl,ce); print('sdss rt', sepv(vec(ra2,dec2),vec(lon,lat)).max(), cl.min(),cl.max(),ce.min(),ce.max(), ra2.min(), ra2.max())
x,y,z=coords.eq2xyz(lon,lat); ra2,dec2=coords.xyz2eq(x,y,z); print('xyz rt', sepv(vec(ra2,dec2),vec(lon,lat)).max(), np.abs(x*x+y*y+z*z-1).max())
# sdss reference: x along node... clambda=-asin(x'), ceta=atan2(z',y')-etapole with ra'=ra-node
node=95.; etap=32.5
v=Rz(node)@vec(lon,lat)
cl_ref=-np.arcsin(v[0])/d2r; ce_ref=(np.arctan2(v[2],v[1])/d2r-etap+180)%360-180
print('sdss ref', np.abs(cl-cl_ref.astype('f8')).max(), np.abs(((ce-ce_ref.astype('f8'))+180)%360-180).max())
# rotate zxz reference
for (phi,theta,psi) in ((10,20,30),(0,90,0),(123,-45,270),(0,0,0)):
    ro,do=coords.rotate(phi,theta,psi,lon,lat)
    # guess convention: rotating points by R = Rz(?)...
    best=None
    for name,Mx in (('A',Rz(-psi)@Rx(-theta)@Rz(-phi)),('B',Rz(psi)@Rx(theta)@Rz(phi)),('C',Rz(-phi)@Rx(-theta)@Rz(-psi)),('D',Rz(phi)@Rx(theta)@Rz(psi))):
        e=sepv(vec(ro,do),Mx@vec(lon,lat)).max()
        if best is None or e<best[1]: best=(name,e)
    print('rotate',phi,theta,psi,best, ro.min(), ro.max())
