import numpy as np, warnings
import esutil as eu
from esutil import stat, numpy_util as nu
def tryit(label, f):
    try:
        r=f()
        print(label, '->', repr(r)[:400])
    except BaseException as e:
        print(label, 'EXC', type(e).__name__, str(e)[:200])
print("=== hist")
tryit('nbin=2', lambda: stat.histogram([0,0.5,1.0], nbin=2, rev=True))
stat.util.have_chist=False
tryit('nbin=2 py', lambda: stat.histogram([0,0.5,1.0], nbin=2, rev=True))
stat.util.have_chist=True
tryit('binsize .5', lambda: stat.histogram([0,0.5,1.0], binsize=0.5, rev=True))
tryit('max excl', lambda: stat.histogram([0,1,2,3,4,5.0], binsize=1, min=1, max=3.5, rev=True))
tryit('single', lambda: stat.histogram([3.0], binsize=1, rev=True))
tryit('const', lambda: stat.histogram([3.0,3.0], nbin=2, rev=True))
tryit('int data', lambda: stat.histogram(np.array([1,2,2,5]), binsize=1, rev=True))
b=stat.Binner([1.,2.,2.5,7.], weights=[1.,2.,3.,4.]); b.dohist(binsize=2.0); 
print({k:v for k,v in b.items()})
b=stat.Binner([1.,2.,2.5,7.,8,9,10], y=[1,2,3,4,5,6,7.]); b.dohist(nperbin=3, mergelast=True); 
print({k:v for k,v in b.items()})
b=stat.Binner([1.,2.,2.5,7.,8,9,10]); b.dohist(nperbin=3, mergelast=False); 
print({k:v for k,v in b.items()})
print("=== unique")
tryit('unique [5,1,5]', lambda: nu.unique(np.array([5,1,5])))
tryit('unique [1,5,5]', lambda: nu.unique(np.array([1,5,5])))
tryit('rem_dup', lambda: nu.rem_dup(np.array([5,1,5,1]), np.array([0,3,2,1])))
tryit('rem_dup n1', lambda: nu.rem_dup(np.array([5]), np.array([0])))
tryit('match', lambda: nu.match(np.array([3,1,2]), np.array([2,2,0,5,3])))
tryit('match u8', lambda: nu.match(np.array([3,1,2],dtype='u8'), np.array([2,2,0,5,3],dtype='u8')))
tryit('match scalar', lambda: nu.match(3, 3))
tryit('match str', lambda: nu.match(np.array(['b','a','zz']), np.array(['zz','q','a','zzz',''])))
tryit('match bytes', lambda: nu.match(np.array([b'b',b'a',b'zz']), np.array([b'zz',b'q',b'a',b'zzz',b''])))
tryit('match dup', lambda: nu.match(np.array([1,1]), np.array([1])))
tryit('match float below', lambda: nu.match(np.array([1.5,-2.0]), np.array([-3.0,1.5,9.9,-2.0])))
print("=== fields")
a=np.zeros((2,3),dtype=[('x','>f8'),('s','S3'),('v','<i2',(2,))]); a['x']=np.arange(6).reshape(2,3); 
tryit('extract 2d', lambda: nu.extract_fields(a,['v','x']).dtype)
tryit('combine 2d', lambda: nu.combine_fields([a, np.zeros((2,3),dtype=[('q','i4')])]).shape)
a0=np.zeros((),dtype=[('x','>f8'),('s','S3')])
tryit('combine 0d', lambda: nu.combine_fields([a0, np.zeros((),dtype=[('q','i4')])]).shape)
tryit('extract 0d', lambda: nu.extract_fields(a0,'x').shape)
tryit('remove tuple', lambda: nu.remove_fields(a,('x',)).dtype)
tryit('remove all', lambda: nu.remove_fields(a,['x','s','v']).dtype)
tryit('add', lambda: nu.add_fields(a,[('n','U4'),('m','>i4',(2,2))], defaults=['ab', 7]))
tryit('add exist', lambda: nu.add_fields(a,[('x','U4')]))
tryit('reorder', lambda: nu.reorder_fields(a,('v',)).dtype)
tryit('reorder arr', lambda: nu.reorder_fields(a,np.array(['v','s'])).dtype)
tryit('reorder dup', lambda: nu.reorder_fields(a,['v','v']).dtype)
tryit('extract missing', lambda: nu.extract_fields(a,['zz']).dtype)
tryit('extract missing nonstrict', lambda: nu.extract_fields(a,['zz','x'],strict=False).dtype)
print("=== endian")
with warnings.catch_warnings():
    warnings.simplefilter('error')
    s=np.zeros(3,dtype=[('s','S3'),('x','>f8')]); s['x']=[1,2,3]
    tryit('to_big (S first, already big)', lambda: nu.to_big_endian(s))
    s2=np.zeros(3,dtype=[('s','S3'),('x','<f8')]); s2['x']=[1,2,3]
    tryit('to_little (S first, already little)', lambda: nu.to_little_endian(s2))
    tryit('to_native S only', lambda: nu.to_native(np.array([b'a',b'bc'])))
    p=np.arange(3,dtype='>i4')
    tryit('to_native plain', lambda: (nu.to_native(p), nu.to_native(p).dtype))
    tryit('to_native inplace', lambda: (nu.to_native(p, inplace=True) is p, p, p.dtype))
    p0=np.array(5,dtype='>i4')
    tryit('to_native 0d', lambda: (nu.to_native(p0), nu.to_native(p0).dtype))
    pnc=np.arange(6,dtype='>i4')[::2]
    tryit('to_native strided', lambda: (nu.to_native(pnc), nu.to_native(pnc).dtype))
    tryit('to_native strided inplace', lambda: (nu.to_native(pnc, inplace=True), pnc.dtype))
    tryit('keep_dtype', lambda: (nu.to_native(np.arange(3,dtype='>i4'), keep_dtype=True)))
