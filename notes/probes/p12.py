import numpy as np, warnings, itertools, collections, time
warnings.simplefilter('ignore')
from esutil import htm
problems=collections.Counter(); ex={}
def note(cat,e): problems[cat]+=1; ex.setdefault(cat,e)
LD=np.longdouble
def vinc(ra1,dec1,ra2,dec2):
    ra1,dec1,ra2,dec2=[np.deg2rad(np.asarray(v,dtype=LD)) for v in (ra1,dec1,ra2,dec2)]
    dl=ra2-ra1
    num=np.hypot(np.cos(dec2)*np.sin(dl), np.cos(dec1)*np.sin(dec2)-np.sin(dec1)*np.cos(dec2)*np.cos(dl))
    den=np.sin(dec1)*np.sin(dec2)+np.cos(dec1)*np.cos(dec2)*np.cos(dl)
    return np.rad2deg(np.arctan2(num,den)).astype('f8')
def offset(ra,dec,sep,pa):
    ra,dec,sep,pa=[np.deg2rad(np.asarray(v,dtype=LD)) for v in (ra,dec,sep,pa)]
    d2=np.arcsin(np.clip(np.sin(dec)*np.cos(sep)+np.cos(dec)*np.sin(sep)*np.cos(pa),-1,1))
    r2=ra+np.arctan2(np.sin(pa)*np.sin(sep)*np.cos(dec), np.cos(sep)-np.sin(dec)*np.sin(d2))
    return (np.rad2deg(r2)%360).astype('f8'), np.rad2deg(d2).astype('f8')
base=[(0.,0.),(0.,90.),(123.,-90.),(359.9999999,10.),(0.0000001,10.),(90.,0.),(180.,0.),(270.,0.),(45.,35.264389682754654),(45.,0.),(0.,45.),(10.,20.),(10.,20.),(200.,-89.9999),(20.,89.9999)]
pts=list(base)
for (ra,dec) in base[:12]:
    for sep in (1e-4,0.01,1.0):
        for pa in (0.,90.,200.):
            r,d=offset(ra,dec,sep,pa); pts.append((float(r),float(d)))
ra=np.array([p[0] for p in pts]); dec=np.array([p[1] for p in pts])
print('npts',ra.size)
D=vinc(ra[:,None],dec[:,None],ra[None,:],dec[None,:])
t0=time.time(); ncalls=0
for depth in (1,2,4,7,10,13):
    h=htm.HTM(depth); M=htm.Matcher(depth,ra,dec)
    tri=90./2**depth
    for rad in (0.,1e-4*1.5,0.01*1.5,0.5,1.5,30.,90.,180.):
        if rad>tri*64: continue
        for mm in (-1,0,1,2,3,1000):
            ncalls+=1
            m1,m2,d=h.match(ra,dec,ra,dec,rad,maxmatch=mm)
            n1,n2,dd=M.match(ra,dec,rad,maxmatch=mm)
            if not (np.array_equal(m1,n1) and np.array_equal(d,dd)): note('matcher-vs-oneshot',(depth,rad,mm))
            # groups
            got=collections.defaultdict(list)
            for a,b,c in zip(m1,m2,d): got[int(a)].append((int(b),float(c)))
            if list(m1)!=sorted(m1): note('group-order',(depth,rad,mm))
            for i in range(ra.size):
                g=got.get(i,[])
                ds=[c for _,c in g]
                if ds!=sorted(ds): note('not-sorted',(depth,rad,mm,i))
                must={j for j in range(ra.size) if D[i,j]<=rad-1e-9}; may={j for j in range(ra.size) if D[i,j]<=rad+1e-9}
                gj=[b for b,_ in g]
                if len(set(gj))!=len(gj): note('dup-pair',(depth,rad,mm,i))
                if mm<=0:
                    if not (must<=set(gj)<=may): note('pairset',(depth,rad,mm,i,sorted(must-set(gj)),sorted(set(gj)-may)))
                else:
                    k=min(mm,len(must))
                    if len(gj)<k or len(gj)>min(mm,len(may)): note('count-k',(depth,rad,mm,i,len(gj),len(must),len(may)))
                    # the k closest: every returned must have true distance <= kth smallest true + tol
                    if gj and len(gj)<=len(may):
                        true_sorted=sorted(D[i,j] for j in may)
                        if max(D[i,b] for b in gj) > true_sorted[len(gj)-1]+2e-6: note('not-closest',(depth,rad,mm,i))
                for b,c in g:
                    if abs(c-D[i,b])>2e-6: note('dist-err',(depth,rad,mm,i,b,c,D[i,b]))
print('calls',ncalls,time.time()-t0)
for k,v in problems.most_common(): print(v,k,repr(ex[k])[:300])
print(pts[44],pts[53],D[44,53])
