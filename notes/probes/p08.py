import numpy as np, warnings, itertools
warnings.simplefilter('ignore')
from esutil import coords
from esutil.coords import eq2xyz
LD=np.longdouble
def vinc(ra1,dec1,ra2,dec2):
    ra1,dec1,ra2,dec2=[np.deg2rad(np.asarray(v,dtype=LD)) for v in (ra1,dec1,ra2,dec2)]
    dl=ra2-ra1
    num=np.hypot(np.cos(dec2)*np.sin(dl), np.cos(dec1)*np.sin(dec2)-np.sin(dec1)*np.cos(dec2)*np.cos(dl))
    den=np.sin(dec1)*np.sin(dec2)+np.cos(dec1)*np.cos(dec2)*np.cos(dl)
    return np.rad2deg(np.arctan2(num,den)).astype('f8')
def offset(ra,dec,sep,pa):
    ra,dec,sep,pa=[np.deg2rad(np.asarray(v,dtype=LD)) for v in (ra,dec,sep,pa)]
    d2=np.arcsin(np.clip(np.sin(dec)*np.cos(sep)+np.cos(dec)*np.sin(sep)*np.cos(pa),-1,1))
    r2=ra+np.arctan2(np.sin(pa)*np.sin(sep)*np.cos(dec), np.cos(sep)-np.sin(dec)*np.sin(d2))
    return (np.rad2deg(r2)%360).astype('f8'), np.rad2deg(d2).astype('f8')
def sphdist_fixed(ra1,dec1,ra2,dec2,units=["deg","deg"]):
    units_in,units_out=units
    x1,y1,z1=eq2xyz(ra1,dec1,units=units_in); x2,y2,z2=eq2xyz(ra2,dec2,units=units_in)
    dsq=(x1-x2)**2+(y1-y2)**2+(z1-z2)**2
    dis=2*np.arcsin(0.5*np.sqrt(dsq))
    w=dsq>=3.99
    if np.any(w):
        cross=np.cross(np.array([x1,y1,z1])[:,w].T,np.array([x2,y2,z2])[:,w].T)
        crosssq=cross[:,0]**2+cross[:,1]**2+cross[:,2]**2
        dis[w]=np.pi-np.arcsin(np.sqrt(crosssq))
    if units_out=="deg": np.rad2deg(dis,dis)
    w=(np.atleast_1d(ra1)==np.atleast_1d(ra2))&(np.atleast_1d(dec1)==np.atleast_1d(dec2))
    dis[w]=0.0
    return dis
P=[(0.,90.),(0.,-90.),(0.,0.),(360.,0.),(359.999999,45.),(359.999999,-45.),(90.,0.),(45.,35.264389682754654),(123.456,-12.34),(271.3,66.6),(12.,90-1e-9),(300.,-90+1e-9)]
worst=0; worstg=0
for (ra,dec) in P:
    for sep in (1e-12,1e-9,1e-6,1e-3,1,60,90,179,180-1e-3,180-1e-6,180-1e-9,180):
        for pa in np.arange(0,360,45.):
            r2,d2=offset(ra,dec,sep,pa)
            t=vinc(ra,dec,r2,d2)
            g=sphdist_fixed(ra,dec,float(r2),float(d2))[0]
            worst=max(worst,abs(g-t))
            g2=sphdist_fixed(ra+360,dec,float(r2),float(d2))[0]; worst=max(worst,abs(g2-t))
            gc=np.rad2deg(coords.gcirc(ra,dec,float(r2),float(d2))[0]); worstg=max(worstg,abs(gc-t))
            if not (0<=g<=180): print('range',g)
print('sphdist_fixed worst err deg',worst,'gcirc worst',worstg)
# euler fixed
def euler_fixed(ai,bi,select,b1950=False):
    import esutil.coords as C
    # replicate with arctan2 latitude
    src=C.euler
    ai=np.array(ai,ndmin=1,copy=True,dtype='f8'); bi=np.array(bi,ndmin=1,copy=True,dtype='f8')
    # pull constants by calling internals: re-create tables
    if b1950:
        psi=[0.57595865315,4.9261918136,0,0,0.11129056012,4.7005372834]; stheta=[0.88781538514,-0.88781538514,0.39788119938,-0.39788119938,0.86766174755,-0.86766174755]; ctheta=[0.46019978478]*2+[0.91743694670]*2+[0.49715499774]*2; phi=[4.9261918136,0.57595865315,0,0,4.7005372834,0.11129056012]
    else:
        psi=[0.57477043300,4.9368292465,0,0,0.11142137093,4.71279419371]; stheta=[0.88998808748,-0.88998808748,0.39777715593,-0.39777715593,0.86766622025,-0.86766622025]; ctheta=[0.45598377618]*2+[0.91748206207]*2+[0.49714719172]*2; phi=[4.9368292465,0.57477043300,0,0,4.71279419371,0.11142137093]
    i=select-1
    a=ai*C.D2R-phi[i]; b=bi*C.D2R; sb=np.sin(b); cb=np.cos(b); cbsa=cb*np.sin(a)
    z=-stheta[i]*cbsa+ctheta[i]*sb; y=ctheta[i]*cbsa+stheta[i]*sb; x=cb*np.cos(a)
    bo=np.arctan2(z,np.hypot(x,y))*C.R2D
    ao=((np.arctan2(y,x)+psi[i]+4*np.pi)%(2*np.pi))*C.R2D
    return ao,bo
def vec(lon,lat):
    lon=np.asarray(lon,dtype=LD)*np.pi/180; lat=np.asarray(lat,dtype=LD)*np.pi/180
    return np.array([np.cos(lat)*np.cos(lon),np.cos(lat)*np.sin(lon),np.sin(lat)])
def sepv(a,b):
    c=np.cross(a.T,b.T).T
    return (np.arctan2(np.sqrt((c**2).sum(0)),(a*b).sum(0))*180/np.pi).astype('f8')
inv={1:2,2:1,3:4,4:3,5:6,6:5}
worst=0
for b in (False,True):
    for sel in range(1,7):
        for plat in (90.,-90.):
            for dist in (0,1e-8,1e-6,1e-4,1e-3,1e-2,1,30):
                tl=np.arange(0,360,30.); tb=np.full(tl.size,plat-np.sign(plat)*dist)
                sl,sb_=euler_fixed(tl,tb,inv[sel],b)   # source coords of near-target-pole points
                lo,la=euler_fixed(sl,sb_,sel,b)
                e=sepv(vec(lo,la),vec(tl,tb)).max(); worst=max(worst,e)
                if not np.all(np.isfinite(lo)&np.isfinite(la)): print('nonfinite',b,sel,plat,dist)
                # also source pole points
                lo2,la2=euler_fixed(tl,tb,sel,b); back=euler_fixed(lo2,la2,inv[sel],b)
                worst=max(worst,sepv(vec(*back),vec(tl,tb)).max())
print('euler_fixed worst roundtrip near poles',worst)
