import numpy as np, warnings, itertools, collections
warnings.simplefilter('ignore')
from esutil import coords
problems=collections.Counter(); ex={}
def note(cat,e): problems[cat]+=1; ex.setdefault(cat,e)
LD=np.longdouble; d2r=LD(np.pi)/180
def vec(lon,lat):
    lon=np.asarray(lon,dtype=LD)*d2r; lat=np.asarray(lat,dtype=LD)*d2r
    return np.array([np.cos(lat)*np.cos(lon),np.cos(lat)*np.sin(lon),np.sin(lat)])
def sepv(a,b):
    c=np.cross(a.T,b.T).T
    return (np.arctan2(np.sqrt((c**2).sum(0)),(a*b).sum(0))/d2r).astype('f8')
def Rz(a): a=LD(a)*d2r; c,s=np.cos(a),np.sin(a); return np.array([[c,s,0],[-s,c,0],[0,0,1]],dtype=LD)
def Rx(a): a=LD(a)*d2r; c,s=np.cos(a),np.sin(a); return np.array([[1,0,0],[0,c,s],[0,-s,c]],dtype=LD)
P=[(0.,90.),(0.,-90.),(0.,0.),(360.,0.),(359.999999,45.),(90.,0.),(45.,35.264389682754654),(123.456,-12.34),(271.3,66.6),(12.,90-1e-9),(300.,-90+1e-9),(95.,0.),(275.,0.),(185.,32.5),(5.,-32.5),(185.,-57.5),(5.,57.5)]
lon=np.array([p[0] for p in P]); lat=np.array([p[1] for p in P])
# sdss
cl,ce=coords.eq2sdss(lon,lat)
if not (np.all(np.isfinite(cl))&np.all(np.isfinite(ce))): note('sdss nonfinite',())
if np.abs(cl).max()>90 or np.abs(ce).max()>180: note('sdss range',(cl,ce))
ra2,dec2=coords.sdss2eq(cl,ce)
e=sepv(vec(ra2,dec2),vec(lon,lat)); 
if e.max()>1e-9: note('sdss roundtrip',(e.max(),lon[e.argmax()],lat[e.argmax()]))
if ra2.min()<0 or ra2.max()>360 or np.abs(dec2).max()>90: note('sdss2eq range',(ra2,dec2))
v=Rz(95.)@vec(lon,lat)
cl_ref=(-np.arcsin(np.clip(v[0],-1,1))/d2r).astype('f8')
# compare on sky in survey frame: build vectors from (clambda,ceta)
def sdss_vec(cl,ce):
    cl=np.asarray(cl,dtype=LD)*d2r; ce=(np.asarray(ce,dtype=LD)+LD(32.5))*d2r
    return np.array([-np.sin(cl),np.cos(ce)*np.cos(cl),np.sin(ce)*np.cos(cl)])
e=sepv(sdss_vec(cl,ce),v)
if e.max()>1e-9: note('sdss vs definition',(e.max(),))
for i,(a,b) in enumerate(P):
    s=coords.eq2sdss(a,b)
    if s[0][0]!=cl[i] or s[1][0]!=ce[i]: note('sdss scalar!=array',(a,b))
# isometry sdss
for i in range(len(P)):
    for j in range(i):
        d0=sepv(vec(lon[[i]],lat[[i]]),vec(lon[[j]],lat[[j]]))[0]; d1=sepv(sdss_vec(cl[[i]],ce[[i]]),sdss_vec(cl[[j]],ce[[j]]))[0]
        if abs(d0-d1)>1e-9: note('sdss isometry',(i,j,d0,d1))
# xyz
x,y,z=coords.eq2xyz(lon,lat)
if np.abs(x*x+y*y+z*z-1).max()>1e-15: note('xyz norm',())
r,d=coords.xyz2eq(x,y,z); e=sepv(vec(r,d),vec(lon,lat))
if e.max()>1e-9: note('xyz roundtrip',(e.max(),))
if r.min()<0 or r.max()>360: note('xyz2eq range',(r,))
for units in ('deg','rad'):
    for stomp in (False,True):
        lo_=lon if units=='deg' else np.deg2rad(lon); la_=lat if units=='deg' else np.deg2rad(lat)
        x,y,z=coords.eq2xyz(lo_,la_,units=units,stomp=stomp); r,d=coords.xyz2eq(x,y,z,units=units,stomp=stomp)
        if units=='rad': r,d=np.rad2deg(r),np.rad2deg(d)
        e=sepv(vec(r,d),vec(lon,lat))
        if e.max()>1e-9: note('xyz roundtrip %s %s'%(units,stomp),(e.max(),))
# rotate
A=[0.,10.,-10.,90.,123.,180.,270.,360.]
for phi,theta,psi in itertools.product(A,repeat=3):
    ro,do=coords.rotate(phi,theta,psi,lon,lat)
    if not (np.all(np.isfinite(ro))&np.all(np.isfinite(do))): note('rotate nonfinite',(phi,theta,psi)); continue
    if ro.min()<0 or ro.max()>=360 or np.abs(do).max()>90: note('rotate range',(phi,theta,psi,ro.max()))
    M=Rz(psi)@Rx(-theta)@Rz(-phi)
    e=sepv(vec(ro,do),M@vec(lon,lat))
    if e.max()>1e-9: note('rotate vs matrix',(phi,theta,psi,e.max()))
    rb,db=coords.rotate(psi,-theta,phi,ro,do); e=sepv(vec(rb,db),vec(lon,lat))
    if e.max()>1e-9: note('rotate inverse',(phi,theta,psi,e.max()))
    s=coords.rotate(phi,theta,psi,float(lon[5]),float(lat[5]))
    if s[0]!=ro[5] or s[1]!=do[5]: note('rotate scalar',(phi,theta,psi))
# shiftlon
L_=np.array([0.,1e-12,10.,179.9999,180.,180.0001,350.,359.999999999])
for s in (0,10,-10,350,-350,360,-360,725,-725,0.5,1e-9):
    out=coords.shiftlon(L_,shift=s)
    if out.min()<0 or out.max()>=360: note('shiftlon range',(s,out))
    diff=(out-(L_-s))/360.0
    if np.abs(diff-np.round(diff)).max()>1e-12: note('shiftlon congruence',(s,out))
out=coords.shiftlon(L_); 
if out.min()<-180 or out.max()>180 or np.abs(((out-L_)/360)-np.round((out-L_)/360)).max()>1e-15: note('wrap',(out,))
if not np.array_equal(coords.shiftlon(L_,wrap=False),L_): note('nowrap',())
if not np.array_equal(coords.shiftra(L_,shift=10),coords.shiftlon(L_,shift=10)): note('shiftra',())
for k,v in sorted(problems.items(),key=str): print(v,k,repr(ex[k])[:260])
print('done')
