import numpy as np, warnings, itertools, collections, time, hashlib
warnings.simplefilter('ignore')
from esutil.wcsutil import WCS
pv=eval(open('/repo/esutil/tests/test_wcsutil.py').read().split('TEST_HEADER = """\\\n')[1].split('\n"""')[0])
def sip():
    h=dict(naxis1=1000,naxis2=1200,ctype1='RA---TAN-SIP',ctype2='DEC--TAN-SIP',crpix1=500.,crpix2=600.,crval1=10.,crval2=20.,cd1_1=-6.5e-5,cd1_2=3.75e-5,cd2_1=3.75e-5,cd2_2=6.5e-5)
    h.update(a_order=2,b_order=2,a_2_0=1e-6,a_1_1=-2e-6,a_0_2=3e-6,b_2_0=-1e-6,b_1_1=2e-6,b_0_2=1.5e-6,ap_order=3,bp_order=3); return h
P=(np.array([100.5,900.]),np.array([200.25,1100.]))
OPS=[('i2s',True),('i2s',False),('s2i',True,True),('s2i',False,True),('s2i',False,False),('jac',)]
def do(w,op,sky):
    if op[0]=='i2s': return w.image2sky(P[0],P[1],distort=op[1])
    if op[0]=='s2i': return w.sky2image(sky[0],sky[1],find=op[1],distort=op[2])
    return w.get_jacobian(P[0],P[1])
def canon(w):
    d=w.distort
    return (w._inverse_computed, d.get('ap_order'), hashlib.sha1(np.ascontiguousarray(d.get('ap',np.zeros(1))).tobytes()+np.ascontiguousarray(d.get('bp',np.zeros(1))).tobytes()).hexdigest()[:8])
for name,hdr in (('tpv',pv),('sip',sip())):
    sky=WCS(dict(hdr)).image2sky(P[0],P[1])
    fresh={}
    for op in OPS:
        try: fresh[op]=do(WCS(dict(hdr)),op,sky)
        except Exception as e: fresh[op]=('EXC',type(e).__name__)
    t0=time.time(); seen=set(); frontier=collections.deque([()]); ntrans=0; bad=0
    seen.add(canon(WCS(dict(hdr))))
    DEPTH=3
    allh=0
    for L in range(1,DEPTH+1):
        for hist in itertools.product(OPS,repeat=L):
            w=WCS(dict(hdr)); ok=True
            for op in hist:
                try: r=do(w,op,sky)
                except Exception as e: r=('EXC',type(e).__name__)
                ntrans+=1
                f=fresh[op]
                if isinstance(r,tuple) and r and isinstance(r[0],str):
                    if r!=f: bad+=1
                else:
                    if not all(np.allclose(a,b,rtol=1e-12,atol=1e-12) for a,b in zip(r,f)): bad+=1; print('DIFF',name,hist,op)
            seen.add(canon(w)); allh+=1
    print(name,'histories',allh,'transitions',ntrans,'states',len(seen),'bad',bad,time.time()-t0, {k:(v if isinstance(v[0],str) else 'ok') for k,v in fresh.items()})
