import numpy as np, warnings, itertools, collections, time
warnings.simplefilter('ignore')
from esutil import numpy_util as nu
problems=collections.Counter(); ex={}
def note(cat,e): problems[cat]+=1; ex.setdefault(cat,e)
F=[('x','>f8'),('v','<i2',(2,)),('s','S3'),('u','<U2'),('m','>i4',(2,2)),('b','i1')]
def fill(arr,seed=0):
    rng=np.random.RandomState(seed)
    for n in arr.dtype.names:
        f=arr[n]
        if f.dtype.kind in 'SU':
            vals=np.array(['a','bc','','zz'],dtype=f.dtype)
            f[...]=vals[rng.randint(0,4,size=f.shape)]
        else:
            f[...]=rng.randint(-50,50,size=f.shape)
    return arr
def field_equal(out,inp,name):
    a=out[name]; b=inp[name]
    return a.dtype==b.dtype and a.shape==b.shape and np.array_equal(a,b)
t0=time.time(); ncall=0
for k in (1,2,3,4):
  for fields in itertools.permutations(F,k):
    if k==4 and fields[0][0] not in ('x','s'): continue
    names=[f[0] for f in fields]
    for shape in ((),(3,),(2,2)):
        arr=fill(np.zeros(shape,dtype=list(fields)))
        cand=names+['zz']
        sels=[]
        for L in range(1,min(3,len(cand))+1):
            sels+=list(itertools.permutations(cand,L))
        for sel in sels:
            missing=[s for s in sel if s not in names]
            for cont in ('scalar',list,tuple,np.array):
                if cont=='scalar':
                    if len(sel)!=1: continue
                    arg=sel[0]
                else: arg=cont(sel)
                # extract
                for strict in (True,False):
                    ncall+=1
                    try: out=nu.extract_fields(arr,arg,strict=strict); err=None
                    except Exception as e: out=None; err=type(e).__name__
                    keep=[n for n in names if n in sel]
                    if (missing and strict) or not keep:
                        if err!='ValueError': note('extract-should-reject',(fields,shape,sel,cont,strict,err))
                    else:
                        if err or list(out.dtype.names)!=keep or out.shape!=arr.shape or not all(field_equal(out,arr,n) for n in keep): note('extract',(fields,shape,sel,cont,strict,err, None if out is None else out.dtype))
                    # reorder
                    ncall+=1
                    try: out=nu.reorder_fields(arr,arg,strict=strict); err=None
                    except Exception as e: out=None; err=type(e).__name__
                    if missing and strict:
                        if err!='ValueError': note('reorder-should-reject',(fields,shape,sel,cont,err))
                    else:
                        first=[s for s in sel if s in names]
                        exp=first+[n for n in names if n not in first]
                        if err or list(out.dtype.names)!=exp or out.shape!=arr.shape or not all(field_equal(out,arr,n) for n in names): note('reorder',(fields,shape,sel,cont,strict,err))
                # remove (scalar, list documented?)
                if cont in ('scalar',list):
                    ncall+=1
                    try: out=nu.remove_fields(arr,arg); err=None
                    except Exception as e: out=None; err=type(e).__name__
                    keep=[n for n in names if n not in sel]
                    if not keep:
                        if err!='ValueError': note('remove-should-reject',(fields,shape,sel,err))
                    elif err or list(out.dtype.names)!=keep or out.shape!=arr.shape or not all(field_equal(out,arr,n) for n in keep): note('remove',(fields,shape,sel,cont,err))
        # add
        for add in ([('n','<U4')],[('q','>f4'),('w','i8',(2,))],[(names[0],'f8')],np.dtype([('n','S2')])):
            for defaults in (None,'dflt'):
                add_dt=np.dtype(add)
                if defaults=='dflt': dv=[('ab' if add_dt[n].kind in 'SU' else 7) for n in add_dt.names]
                else: dv=None
                ncall+=1
                try: out=nu.add_fields(arr,add,defaults=dv); err=None
                except Exception as e: out=None; err=type(e).__name__
                clash=any(n in names for n in add_dt.names)
                if clash:
                    if err!='ValueError': note('add-should-reject',(fields,shape,add,err))
                    continue
                if err: note('add-exc:'+err,(fields,shape,add,dv)); continue
                ok=list(out.dtype.names)==names+list(add_dt.names) and out.shape==arr.shape and all(field_equal(out,arr,n) for n in names)
                for n,d in zip(add_dt.names, dv or [None]*len(add_dt.names)):
                    ok=ok and out[n].dtype.base==add_dt[n].base and out[n].shape==arr.shape+add_dt[n].shape
                    if d is None: ok=ok and not np.any(out[n].astype(bool) if out[n].dtype.kind not in 'SU' else out[n]!=np.zeros((),dtype=out[n].dtype))
                    else: ok=ok and np.all(out[n]==np.array(d,dtype=add_dt[n].base))
                if not ok: note('add',(fields,shape,add,dv,out.dtype))
        # split, copy_fields
        sp=nu.split_fields(arr)
        if len(sp)!=len(names) or not all(np.array_equal(s,arr[n]) and s.dtype==arr[n].dtype for s,n in zip(sp,names)): note('split',(fields,shape))
        if not nu.compare_arrays(arr,arr.copy()): note('compare-self',(fields,shape))
# combine
import itertools as it
for shape in ((),(3,),(2,2)):
    pool=[ [F[0]],[F[1],F[2]],[F[3]],[F[4],F[5]] ]
    for k in (1,2,3,4):
        for combo in it.permutations(range(4),k):
            arrs=[fill(np.zeros(shape,dtype=pool[i]),seed=i) for i in combo]
            ncall+=1
            try: out=nu.combine_fields(arrs); err=None
            except Exception as e: out=None; err=type(e).__name__
            exp=[n for i in combo for n in [f[0] for f in pool[i]]]
            if err or list(out.dtype.names)!=exp or out.shape!=tuple(shape) or not all(field_equal(out,a,n) for a in arrs for n in a.dtype.names): note('combine:%s:%s'%(shape,err),(combo,))
    # errors
    a=fill(np.zeros(3,dtype=pool[0])); b=fill(np.zeros(4,dtype=pool[1])); c=fill(np.zeros(3,dtype=pool[0]))
    for arrs,nm in (([a,b],'difflen'),([a,c],'samename'),([], 'empty')):
        try: nu.combine_fields(arrs); note('combine-should-reject:'+nm,())
        except ValueError: pass
        except Exception as e: note('combine-reject-other:%s:%s'%(nm,type(e).__name__),())
print('calls',ncall,time.time()-t0)
for k,v in problems.most_common(): print(v,k,repr(ex[k])[:300])
