import numpy as np, warnings, os
warnings.simplefilter('ignore')
from esutil import sfile, recfile
fn='/tmp/x/t.rec'
def tryit(label, f):
    try:
        r=f()
        print(label, '->', repr(r)[:600])
    except BaseException as e:
        print(label, 'EXC', type(e).__name__, str(e)[:200])
# big-endian text write: input mutated?
d=np.zeros(3,dtype=[('a','>i4'),('x','>f8'),('s','S4')]); d['a']=[1,2,3]; d['x']=[1.5,np.nan,-np.inf]; d['s']=[b' ab',b'c  d',b'']
before=d.tobytes(); 
sfile.write(fn,d,delim=',')
print('mutated after text write:', d.tobytes()!=before, d)
d=np.zeros(3,dtype=[('a','>i4'),('x','>f8'),('s','S4')]); d['a']=[1,2,3]; d['x']=[1.5,np.nan,-np.inf]; d['s']=[b' ab',b'c  d',b'']
for delim in (',',':','\t',' ',';','|'):
    dd=d.copy()
    def f():
        sfile.write(fn,dd,delim=delim)
        return sfile.read(fn,header=True)
    tryit('delim %r'%delim, f)
print(open(fn).read())
# leading-space strings after numeric, last-col numeric + first col string with leading space
d2=np.zeros(3,dtype=[('s','S3'),('a','i4')]); d2['s']=[b'  x',b' y ',b'z']; d2['a']=[1,2,3]
for delim in (',','\t',' '):
    def f():
        sfile.write(fn,d2,delim=delim); return sfile.read(fn)
    tryit('lead-space first col, delim %r'%delim, f)
d3=np.zeros(3,dtype=[('a','i4'),('s','S3')]); d3['s']=[b'  x',b' y ',b'z']; d3['a']=[1,2,3]
for delim in (',','\t',' '):
    def f():
        sfile.write(fn,d3,delim=delim); return sfile.read(fn)
    tryit('lead-space after num, delim %r'%delim, f)
# strings containing delimiter
d4=np.zeros(2,dtype=[('s','S3'),('a','i4'),('t','S2',(2,))]); d4['s']=[b'a,b',b',,,']; d4['a']=[1,2]; d4['t']=[[b',',b'x'],[b'',b'y,']]
def f():
    sfile.write(fn,d4,delim=','); return sfile.read(fn)
tryit('delim in strings', f)
# int extremes, float precision
d5=np.zeros(2,dtype=[('i1','i1'),('u1','u1'),('i2','i2'),('u2','u2'),('i4','i4'),('u4','u4'),('i8','i8'),('u8','u8'),('f4','f4'),('f8','f8')])
for n in d5.dtype.names[:8]:
    ii=np.iinfo(d5[n].dtype); d5[n]=[ii.min,ii.max]
d5['f4']=[np.float32(1/3), np.finfo('f4').max]; d5['f8']=[1/3, np.finfo('f8').max]
def f():
    sfile.write(fn,d5,delim=','); return sfile.read(fn)
tryit('extremes', f)
d5['f4']=[np.finfo('f4').tiny, -0.0]; d5['f8']=[5e-324, -0.0]
tryit('tiny', f)
print(open(fn).read().split('END')[1])
# subarrays 2d
d6=np.zeros(2,dtype=[('m','f8',(2,3)),('v','i2',(2,)),('s','S2',(2,2))]); d6['m']=np.arange(12).reshape(2,2,3)/7; d6['v']=[[1,2],[3,4]]; d6['s']=[[[b'a',b'bb'],[b'',b'c']],[[b'dd',b'e'],[b'f',b'g']]]
def f():
    sfile.write(fn,d6,delim=','); return sfile.read(fn, header=True)
tryit('subarrays', f)
tryit('subarrays col subset', lambda: sfile.read(fn, columns=['s','v'], rows=[1]))
# Recfile direct text
def f():
    with recfile.Recfile(fn,mode='w',delim=',') as r: r.write(d6)
    with recfile.Recfile(fn,mode='r',delim=',',dtype=d6.dtype) as r: return r.read()
tryit('recfile text', f)
def f():
    with recfile.Recfile(fn,mode='w',delim=',') as r: r.write(d6)
    with recfile.Recfile(fn,mode='r',delim=',',dtype=d6.dtype, nrows=2) as r: return r[:], r[1], r['v'][:]
tryit('recfile text nrows', f)
# bool/complex binary
d7=np.zeros(2,dtype=[('b','?'),('c','>c16'),('c8','c8',(2,))]); d7['b']=[True,False]; d7['c']=[1+2j,np.nan]; 
def f():
    sfile.write(fn,d7); return sfile.read(fn,header=True)
tryit('bool complex', f)
