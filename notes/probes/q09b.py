import numpy as np, warnings
warnings.simplefilter('ignore')
from esutil import coords
LD=np.longdouble; d2r=LD(np.pi)/180
def vec(lon,lat):
    lon=np.asarray(lon,dtype=LD)*d2r; lat=np.asarray(lat,dtype=LD)*d2r
    return np.array([np.cos(lat)*np.cos(lon),np.cos(lat)*np.sin(lon),np.sin(lat)])
def sepv(a,b):
    c=np.cross(a.T,b.T).T
    return (np.arctan2(np.sqrt((c**2).sum(0)),(a*b).sum(0))/d2r).astype('f8')
def lonlat(v): return (np.arctan2(v[1],v[0])/d2r%360).astype('f8'),(np.arctan2(v[2],np.hypot(v[0],v[1]))/d2r).astype('f8')
def Rz(a): a=LD(a)*d2r; c,s=np.cos(a),np.sin(a); return np.array([[c,s,0],[-s,c,0],[0,0,1]],dtype=LD)
w_xyz=w_sdss=w_sdss_def=0
for dist in (0,1e-9,1e-8,1e-7,1e-6,1e-5,1e-4,1e-3,1e-2,1):
    tl=np.arange(0,360,30.)
    for plat in (90.,-90.):
        tb=np.full(tl.size,plat-np.sign(plat)*dist)
        x,y,z=coords.eq2xyz(tl,tb); r,d=coords.xyz2eq(x,y,z); e=sepv(vec(r,d),vec(tl,tb)).max(); w_xyz=max(w_xyz,e)
        cl,ce=coords.eq2sdss(tl,tb); r,d=coords.sdss2eq(cl,ce); e=sepv(vec(r,d),vec(tl,tb)).max(); w_sdss=max(w_sdss,e)
        # survey poles: points near clambda=+-90 -> in rotated frame x=-+1 ; eq coords = Rz(95)^T applied
        sv=vec(tl,tb)  # treat as vectors around z pole, then map z->x axis of survey frame
        M=np.array([[0,0,1],[0,1,0],[-1,0,0]],dtype=LD)  # z-pole ring -> x-pole ring
        eqv=Rz(95.).T@(M@sv); ra,dec=lonlat(eqv)
        cl,ce=coords.eq2sdss(ra,dec); r,d=coords.sdss2eq(cl,ce); e=sepv(vec(r,d),vec(ra,dec)).max(); w_sdss=max(w_sdss,e)
        if not (np.all(np.isfinite(cl))&np.all(np.isfinite(ce))&(np.abs(cl).max()<=90)&(np.abs(ce).max()<=180)): print('range',dist)
print('worst xyz',w_xyz,'worst sdss',w_sdss)
