import numpy as np, warnings, time
warnings.simplefilter('ignore')
from esutil.wcsutil import WCS
def tryit(label, f):
    try:
        r=f()
        print(label, '->', repr(r)[:500])
    except BaseException as e:
        print(label, 'EXC', type(e).__name__, str(e)[:200])
d2r=np.pi/180
def ref(h, x, y, distort=True):
    x=np.asarray(x,dtype=np.longdouble); y=np.asarray(y,dtype=np.longdouble)
    u=x-h['crpix1']; v=y-h['crpix2']
    proj=h['ctype1'][4:].strip()
    if proj=='-TAN-SIP' and distort:
        ao=h['a_order']; du=0; dv=0
        for p in range(ao+1):
            for q in range(ao+1):
                du=du+h.get('a_%d_%d'%(p,q),0.0)*u**p*v**q
                dv=dv+h.get('b_%d_%d'%(p,q),0.0)*u**p*v**q
        u=u+du; v=v+dv
    xi=h['cd1_1']*u+h['cd1_2']*v; eta=h['cd2_1']*u+h['cd2_2']*v
    if proj in ('-TPV','-TAN') and distort and 'pv1_1' in h:
        g=lambda k: np.longdouble(h.get(k,0.0))
        xi2=g('pv1_0')+g('pv1_1')*xi+g('pv1_2')*eta+g('pv1_4')*xi**2+g('pv1_5')*xi*eta+g('pv1_6')*eta**2+g('pv1_7')*xi**3+g('pv1_8')*xi**2*eta+g('pv1_9')*xi*eta**2+g('pv1_10')*eta**3
        eta2=g('pv2_0')+g('pv2_1')*eta+g('pv2_2')*xi+g('pv2_4')*eta**2+g('pv2_5')*eta*xi+g('pv2_6')*xi**2+g('pv2_7')*eta**3+g('pv2_8')*eta**2*xi+g('pv2_9')*eta*xi**2+g('pv2_10')*xi**3
        xi,eta=xi2,eta2
    xi=xi*d2r; eta=eta*d2r
    ra0=np.longdouble(h['crval1'])*d2r; dec0=np.longdouble(h['crval2'])*d2r
    # gnomonic deprojection via vector
    # tangent point unit vectors
    cx=np.cos(dec0)*np.cos(ra0); cy=np.cos(dec0)*np.sin(ra0); cz=np.sin(dec0)
    ex=(-np.sin(ra0), np.cos(ra0), 0)  # east
    nx=(-np.sin(dec0)*np.cos(ra0), -np.sin(dec0)*np.sin(ra0), np.cos(dec0))  # north
    X=cx+xi*ex[0]+eta*nx[0]; Y=cy+xi*ex[1]+eta*nx[1]; Z=cz+xi*ex[2]+eta*nx[2]
    ra=np.arctan2(Y,X)/d2r % 360; dec=np.arctan2(Z,np.hypot(X,Y))/d2r
    return ra.astype('f8'), dec.astype('f8')
def sep(ra1,dec1,ra2,dec2):
    ra1,dec1,ra2,dec2=[np.deg2rad(np.asarray(v,dtype=np.longdouble)) for v in (ra1,dec1,ra2,dec2)]
    dl=ra2-ra1
    num=np.hypot(np.cos(dec2)*np.sin(dl), np.cos(dec1)*np.sin(dec2)-np.sin(dec1)*np.cos(dec2)*np.cos(dl))
    den=np.sin(dec1)*np.sin(dec2)+np.cos(dec1)*np.cos(dec2)*np.cos(dl)
    return np.rad2deg(np.arctan2(num,den)).astype('f8')
def tan_hdr(crval=(10.,20.), crpix=(500.,600.), scale=0.27/3600, rot=30., flip=False, naxis=(1000,1200)):
    c,s=np.cos(rot*d2r),np.sin(rot*d2r)
    h=dict(naxis1=naxis[0],naxis2=naxis[1],ctype1='RA---TAN',ctype2='DEC--TAN',crpix1=crpix[0],crpix2=crpix[1],crval1=crval[0],crval2=crval[1],
           cd1_1=-scale*c*(-1 if flip else 1), cd1_2=scale*s, cd2_1=scale*s, cd2_2=scale*c, cunit1='deg', cunit2='deg')
    return h
pv=eval(open('/repo/esutil/tests/test_wcsutil.py').read().split('TEST_HEADER = """\\\n')[1].split('\n"""')[0])
xs=np.array([1.,500.,1000.,1.,1000., 250.3]); ys=np.array([1.,600.,1200.,1200.,1.,777.7])
for crval in ((10.,20.),(0.0001,-57.),(359.9999,89.99),(123.,90.),(45.,-90.),(0.,0.)):
    h=tan_hdr(crval=crval)
    w=WCS(h)
    ra,dec=w.image2sky(xs,ys); rr,dd=ref(h,xs,ys)
    print('TAN',crval, sep(ra,dec,rr,dd).max(), w.image2sky(h['crpix1'],h['crpix2']), ra.min(), ra.max())
    xb,yb=w.sky2image(ra,dec)
    print('   inv', np.abs(xb-xs).max(), np.abs(yb-ys).max())
    tryit('   scalar', lambda: (w.image2sky(3.,4.), w.sky2image(float(ra[0]),float(dec[0]))))
    tryit('   jac', lambda: w.get_jacobian(3.,4.))
# TPV
h=dict(pv); w=WCS(h)
xs2=np.array([1.,1024.,2048.,1.,2048.,777.7]); ys2=np.array([1.,2048.,4096.,4096.,1.,1234.5])
ra,dec=w.image2sky(xs2,ys2); rr,dd=ref(h,xs2,ys2)
print('TPV', sep(ra,dec,rr,dd).max())
t0=time.time(); xb,yb=w.sky2image(ra,dec); print('  find', np.abs(xb-xs2).max(), np.abs(yb-ys2).max(), time.time()-t0)
xb,yb=w.sky2image(ra,dec,find=False); print('  nofind', np.abs(xb-xs2).max(), np.abs(yb-ys2).max())
ra_nd,dec_nd=w.image2sky(xs2,ys2,distort=False); rr,dd=ref(h,xs2,ys2,distort=False); print('  nodistort fwd', sep(ra_nd,dec_nd,rr,dd).max())
xb,yb=w.sky2image(ra_nd,dec_nd,distort=False,find=False); print('  nodistort inv', np.abs(xb-xs2).max(), np.abs(yb-ys2).max())
# TPV with crval moved to pole/seam
for crval in ((0.,0.),(359.99999,89.999),(12.,-90.)):
    h=dict(pv); h['crval1'],h['crval2']=crval; w=WCS(h)
    ra,dec=w.image2sky(xs2,ys2); rr,dd=ref(h,xs2,ys2)
    xb,yb=w.sky2image(ra,dec)
    print('TPV',crval, sep(ra,dec,rr,dd).max(), np.abs(xb-xs2).max(), np.abs(yb-ys2).max())
# SIP
h=tan_hdr(); h['ctype1']='RA---TAN-SIP'; h['ctype2']='DEC--TAN-SIP'
h.update(a_order=2,b_order=2,a_2_0=1e-6,a_1_1=-2e-6,a_0_2=3e-6,b_2_0=-1e-6,b_1_1=2e-6,b_0_2=1.5e-6)
tryit('SIP no ap_order', lambda: WCS(h))
h.update(ap_order=3,bp_order=3)
tryit('SIP w ap_order', lambda: WCS(h))
w=WCS(h)
ra,dec=w.image2sky(xs,ys); rr,dd=ref(h,xs,ys)
print('SIP', sep(ra,dec,rr,dd).max())
xb,yb=w.sky2image(ra,dec); print('  find', np.abs(xb-xs).max(), np.abs(yb-ys).max())
xb,yb=w.sky2image(ra,dec,find=False); print('  nofind', np.abs(xb-xs).max(), np.abs(yb-ys).max())
tryit('SIP image2sky distort=False', lambda: w.image2sky(xs,ys,distort=False))
h2=tan_hdr(); h2['ctype1']='RA---TAN-SIP'; h2['ctype2']='DEC--TAN-SIP'; h2.update(a_order=2,b_order=2,ap_order=2,bp_order=2)
tryit('SIP no coeffs', lambda: WCS(h2).image2sky(xs,ys))
# history dependence
w1=WCS(dict(pv)); w2=WCS(dict(pv))
a=w1.sky2image(ra[0],dec[0],find=False)
b=w1.image2sky(10.,10.); c=w2.image2sky(10.,10.)
print('hist', b==c)
ra,dec=w1.image2sky(xs2,ys2)
r1=w1.sky2image(ra,dec); r2=WCS(dict(pv)).sky2image(ra,dec); print('hist2', np.array_equal(r1,r2))
r1=w1.sky2image(ra,dec,find=False); r2=WCS(dict(pv)).sky2image(ra,dec,find=False); print('hist3', np.array_equal(r1,r2))
