import numpy as np, warnings, itertools, collections, time
warnings.simplefilter('ignore')
from esutil import sfile
import esutil as eu
fn='/dev/shm/p01.rec'
problems=collections.Counter(); ex={}
def note(cat,e): problems[cat]+=1; ex.setdefault(cat,e)
def teq(a,b):
    if type(a) is not type(b): return False
    if isinstance(a,(list,tuple)): return len(a)==len(b) and all(teq(x,y) for x,y in zip(a,b))
    if isinstance(a,dict): return a.keys()==b.keys() and all(teq(a[k],b[k]) for k in a)
    if isinstance(a,float) and a==0: return str(a)==str(b)
    return a==b
keys=['a','END','SIZE','size','nrows','NROWS','delim','shape','BLEND','x y',"it's",'q"k','ключ','dtype','version','has_fields','e\\n','']
values=[0,-7,2**70,1.5,1e-300,-0.0,True,None,'','END','SIZE = 3','it\'s "q"\nnew','word '*60,'x'*200,b'\x00\xff',b'END',(1,),(),[],{},[1,[2,{'z':1.5}]],{'END':1},'  lead','trail  ','a\tb','\\','é','{','}','#']
d=np.zeros(2,dtype=[('a','>i4'),('s','S3')]); d['a']=[1,2]; d['s']=[b'x',b'END']
n=0
for k in keys:
    for v in values:
        n+=1
        try:
            sfile.write(fn,d,header={k:v}); out,hdr=sfile.read(fn,header=True); err=None
        except Exception as e: err=type(e).__name__; hdr=None
        hasEND=('END' in k) or ('END' in repr(v))
        if err or out.tobytes()!=d.tobytes() or k not in hdr or not teq(hdr[k],v) or hdr['_SIZE']!=2:
            note(('fail','END' if hasEND else 'noEND',err),(k,v, None if hdr is None else hdr.get(k)))
print('cases',n)
for k,v in sorted(problems.items(),key=str): print(v,k,repr(ex[k])[:200])
# names
for nm in ['a','END','ENDPOINT','aEND','SIZE','Size','x_1','é','END_','_x','lambda','class']:
    dd=np.zeros(2,dtype=[(nm,'i4'),('zz','f8')])
    try:
        sfile.write(fn,dd); out=sfile.read(fn); ok=out.dtype==dd.dtype
        c=sfile.read(fn,columns=nm); ok=ok and c.dtype==np.dtype('i4')
        print(nm,ok)
    except Exception as e: print(nm,'EXC',type(e).__name__,e)
