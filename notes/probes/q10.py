import numpy as np, warnings, itertools, collections, time
warnings.simplefilter('ignore')
from esutil.wcsutil import WCS
problems=collections.Counter(); ex={}
def note(cat,e): problems[cat]+=1; ex.setdefault(cat,e)
exec(open('/tmp/x/e8.py').read().split("pv=eval(")[0].split("def tryit")[1].split("d2r=np.pi/180")[1].join(["d2r=np.pi/180",""]) if False else "")
d2r=np.pi/180
LD=np.longdouble
def ref(h, x, y, distort=True):
    x=np.asarray(x,dtype=LD); y=np.asarray(y,dtype=LD)
    u=x-h['crpix1']; v=y-h['crpix2']
    proj=h['ctype1'][4:].strip()
    if proj=='-TAN-SIP' and distort:
        ao=h['a_order']; du=0; dv=0
        for p in range(ao+1):
            for q in range(ao+1):
                du=du+h.get('a_%d_%d'%(p,q),0.0)*u**p*v**q
                dv=dv+h.get('b_%d_%d'%(p,q),0.0)*u**p*v**q
        u=u+du; v=v+dv
    xi=h['cd1_1']*u+h['cd1_2']*v; eta=h['cd2_1']*u+h['cd2_2']*v
    if proj in ('-TPV','-TAN') and distort and 'pv1_1' in h:
        g=lambda k: LD(h.get(k,0.0))
        xi2=g('pv1_0')+g('pv1_1')*xi+g('pv1_2')*eta+g('pv1_4')*xi**2+g('pv1_5')*xi*eta+g('pv1_6')*eta**2+g('pv1_7')*xi**3+g('pv1_8')*xi**2*eta+g('pv1_9')*xi*eta**2+g('pv1_10')*eta**3
        eta2=g('pv2_0')+g('pv2_1')*eta+g('pv2_2')*xi+g('pv2_4')*eta**2+g('pv2_5')*eta*xi+g('pv2_6')*xi**2+g('pv2_7')*eta**3+g('pv2_8')*eta**2*xi+g('pv2_9')*eta*xi**2+g('pv2_10')*xi**3
        xi,eta=xi2,eta2
    xi=xi*LD(d2r); eta=eta*LD(d2r)
    ra0=LD(h['crval1'])*LD(d2r); dec0=LD(h['crval2'])*LD(d2r)
    cx=np.cos(dec0)*np.cos(ra0); cy=np.cos(dec0)*np.sin(ra0); cz=np.sin(dec0)
    ex_=(-np.sin(ra0), np.cos(ra0), 0); nx=(-np.sin(dec0)*np.cos(ra0), -np.sin(dec0)*np.sin(ra0), np.cos(dec0))
    X=cx+xi*ex_[0]+eta*nx[0]; Y=cy+xi*ex_[1]+eta*nx[1]; Z=cz+xi*ex_[2]+eta*nx[2]
    return (np.arctan2(Y,X)/LD(d2r) % 360).astype('f8'), (np.arctan2(Z,np.hypot(X,Y))/LD(d2r)).astype('f8')
def sep(ra1,dec1,ra2,dec2):
    ra1,dec1,ra2,dec2=[np.deg2rad(np.asarray(v,dtype=LD)) for v in (ra1,dec1,ra2,dec2)]
    dl=ra2-ra1
    num=np.hypot(np.cos(dec2)*np.sin(dl), np.cos(dec1)*np.sin(dec2)-np.sin(dec1)*np.cos(dec2)*np.cos(dl))
    den=np.sin(dec1)*np.sin(dec2)+np.cos(dec1)*np.cos(dec2)*np.cos(dl)
    return np.rad2deg(np.arctan2(num,den)).astype('f8')
pv=eval(open('/repo/esutil/tests/test_wcsutil.py').read().split('TEST_HEADER = """\\\n')[1].split('\n"""')[0])
pvkeys={k:v for k,v in pv.items() if k.startswith('pv')}
NAX=(2048,4096)
def hdr(proj,crval,scale,rot,flip,crpix,pvscale=1.0,sip=2):
    c,s=np.cos(rot*d2r),np.sin(rot*d2r); sc=scale/3600.
    h=dict(naxis1=NAX[0],naxis2=NAX[1],crpix1=crpix[0],crpix2=crpix[1],crval1=crval[0],crval2=crval[1],cunit1='deg',cunit2='deg',
           cd1_1=-sc*c*(-1 if flip else 1),cd1_2=sc*s,cd2_1=sc*s*(1 if not flip else 1),cd2_2=sc*c)
    if proj=='TAN': h.update(ctype1='RA---TAN',ctype2='DEC--TAN')
    elif proj in ('TPV','TANPV'):
        h.update(ctype1='RA---TPV' if proj=='TPV' else 'RA---TAN',ctype2='DEC--TPV' if proj=='TPV' else 'DEC--TAN')
        for k,v in pvkeys.items():
            lin=k in ('pv1_1','pv2_1')
            h[k]=(1+(v-1)*pvscale) if lin else v*pvscale
    else:
        h.update(ctype1='RA---TAN-SIP',ctype2='DEC--TAN-SIP',a_order=sip,b_order=sip,ap_order=sip+1,bp_order=sip+1)
        co={(2,0):1e-6,(1,1):-2e-6,(0,2):3e-6,(3,0):1e-10,(2,1):-2e-10,(1,2):1.5e-10,(0,3):-1e-10}
        for (p,q),v in co.items():
            if p+q<=sip: h['a_%d_%d'%(p,q)]=v; h['b_%d_%d'%(q,p)]=-0.7*v
    return h
gx=np.linspace(1,NAX[0],4); gy=np.linspace(1,NAX[1],4); GX,GY=[a.ravel() for a in np.meshgrid(gx,gy)]
t0=time.time(); nh=0; worst=collections.defaultdict(float)
for proj in ('TAN','TPV','TANPV','SIP2','SIP3'):
  for crval in ((10.,20.),(0.,0.),(1e-4,-57.),(359.9999,89.99),(123.,90.),(45.,-90.),(180.,-89.999)):
    for scale,rot,flip in ((0.27,30.,False),(0.05,200.,True),(2.0,90.,False),(0.27,0.,True)):
      for crpix in ((1024.,2048.),(1.,1.),(-4617.7,-8609.6)):
        if proj!='TAN' and crpix[0]<0 and scale>1: continue
        h=hdr('SIP' if proj.startswith('SIP') else proj,crval,scale,rot,flip,crpix,sip=int(proj[-1]) if proj.startswith('SIP') else 2)
        try: w=WCS(dict(h))
        except Exception as e: note('ctor:'+type(e).__name__,(proj,crval)); continue
        nh+=1
        X=np.concatenate([GX,[crpix[0]]]); Y=np.concatenate([GY,[crpix[1]]])
        ra,dec=w.image2sky(X,Y); rr,dd=ref(h,X,Y)
        if not (np.all(np.isfinite(ra))&np.all(np.isfinite(dec))): note('nonfinite',(proj,crval,scale,crpix)); continue
        e=sep(ra,dec,rr,dd).max(); worst['fwd:'+proj]=max(worst['fwd:'+proj],e)
        if e>1e-9: note('fwd',(proj,crval,scale,rot,flip,crpix,e))
        if ra.min()<0 or ra.max()>=360: note('lon range',(proj,crval,ra.min(),ra.max()))
        r0,d0=w.image2sky(crpix[0],crpix[1])
        pv0 = proj in ('TPV','TANPV')
        if not pv0 and sep(r0,d0,crval[0],crval[1])>1e-9: note('crpix->crval',(proj,crval,r0,d0))
        ra2,dec2=w.image2sky(X,Y,distort=False); rr,dd=ref(h,X,Y,distort=False)
        e=sep(ra2,dec2,rr,dd).max()
        if e>1e-9: note('fwd-nodistort',(proj,crval,e))
        # inverse find=False
        xb,yb=w.sky2image(ra,dec,find=False); e=max(np.abs(xb-X).max(),np.abs(yb-Y).max()); worst['nofind:'+proj]=max(worst['nofind:'+proj],e)
        xb,yb=w.sky2image(ra2,dec2,find=False,distort=False); e=max(np.abs(xb-X).max(),np.abs(yb-Y).max()); worst['nofind-nodistort:'+proj]=max(worst['nofind-nodistort:'+proj],e)
        if e>1e-6: note('inverse-nodistort',(proj,crval,scale,crpix,e))
        # find=True on 3 points
        idx=[0,7,len(X)-1]
        xb,yb=w.sky2image(ra[idx],dec[idx]); e=max(np.abs(xb-X[idx]).max(),np.abs(yb-Y[idx]).max()); worst['find:'+proj]=max(worst['find:'+proj],e)
        if e>1e-6: note('inverse-find',(proj,crval,scale,rot,flip,crpix,e))
        s=w.image2sky(float(X[3]),float(Y[3]))
        if s[0]!=ra[3] or s[1]!=dec[3]: note('scalar!=array',(proj,crval))
print('headers',nh,time.time()-t0)
for k,v in sorted(worst.items()): print(' ',k,v)
for k,v in sorted(problems.items(),key=str): print(v,k,repr(ex[k])[:260])
print('--- details')
for proj in ('TPV','SIP2'):
  for crval in ((10.,20.),(123.,90.),(359.9999,89.99),(180.,-89.999),(45.,-90.)):
    for scale,rot,flip in ((0.27,30.,False),(0.05,200.,True),(2.0,90.,False),(0.27,0.,True)):
      for crpix in ((1024.,2048.),(1.,1.),(-4617.7,-8609.6)):
        if proj!='TAN' and crpix[0]<0 and scale>1: continue
        h=hdr('SIP' if proj.startswith('SIP') else proj,crval,scale,rot,flip,crpix,sip=2)
        w=WCS(dict(h)); X=GX; Y=GY
        ra,dec=w.image2sky(X,Y)
        xb,yb=w.sky2image(ra,dec,find=False); e1=max(np.abs(xb-X).max(),np.abs(yb-Y).max())
        idx=[0,7,15]
        xb,yb=w.sky2image(ra[idx],dec[idx]); e2=max(np.abs(xb-X[idx]).max(),np.abs(yb-Y[idx]).max())
        # size of distortion in pixels
        ra_nd,dec_nd=w.image2sky(X,Y,distort=False); dist_px=sep(ra,dec,ra_nd,dec_nd).max()/(scale/3600.)
        if e1>1e-3 or e2>1e-7: print(proj,crval,scale,rot,flip,crpix,'nofind err %.3g'%e1,'find err %.3g'%e2,'distortion px %.3g'%dist_px)
print('--- pole proximity')
for proj in ('SIP2','TPV'):
  for scale in (0.05,0.27,2.0):
    h=hdr('SIP' if proj.startswith('SIP') else proj,(123.,90.),scale,200.,True,(1024.,2048.),sip=2)
    w=WCS(dict(h))
    # find pixel that maps to the pole: start from crpix, for TPV pv offsets shift it
    from scipy.optimize import fsolve
    for off in (0.,1e-6,1e-4,1e-2,1.,30.):
        X=np.array([1024.+off,1024.,1024.-off*0.7]); Y=np.array([2048.,2048.+off,2048.+off*0.3])
        ra,dec=w.image2sky(X,Y)
        xb,yb=w.sky2image(ra,dec)
        e=max(np.abs(xb-X).max(),np.abs(yb-Y).max())
        print(proj,scale,'offset px',off,'min pole dist deg %.3g'%(90-dec.max()),'find err px %.3g'%e)
